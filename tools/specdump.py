"""Developer tool: dump canonical results of all Python-supported model-level spec tuples (at their own references)
to a JSON file, for before/after comparison of a candidate repair. usage: specdump.py out.json [recognizer ...]"""
import json, sys, os, warnings
from concurrent.futures import ProcessPoolExecutor
import multiprocessing as mp
warnings.simplefilter('ignore')
sys.path.insert(0, os.path.dirname(os.path.dirname(os.path.abspath(__file__))))


def work(args):
    part, parts, recs = args
    warnings.simplefilter('ignore')
    from sim import boot, lib
    boot.boot()
    specs = lib.load_model_specs(tuple(recs))[part::parts]
    out = {}
    for s in specs:
        R = lib.parse_reference(s['ref'] or '2016-11-07T00:00:00') if s['kind'] == 'DateTime' else None
        try:
            out[s['id']] = lib.canon(lib.call_helper(s['kind'], s['query'], s['culture'], s['opt'], R))
        except Exception as e:
            out[s['id']] = 'EXC ' + repr(e)
    return out


if __name__ == '__main__':
    recs = sys.argv[2:] or ['Number', 'NumberWithUnit', 'DateTime', 'Sequence', 'Choice']
    with ProcessPoolExecutor(16, mp_context=mp.get_context('spawn')) as ex:
        res = {}
        for r in ex.map(work, [(p, 16, recs) for p in range(16)]):
            res.update(r)
    json.dump(res, open(sys.argv[1], 'w'), ensure_ascii=False, sort_keys=True, indent=0)
    print(len(res))
