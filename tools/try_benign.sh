#!/bin/bash
# usage: try_benign.sh <id> <worktree> <prop> [<prop> ...] — run quick checks against a behaviour-preserving change; all must exit 0
ID=$1; WT=$2; shift 2
mkdir -p /verif/seeded/benign-$ID
for P in "$@"; do
  VERIF_REPO_ROOT=$WT VERIF_REPLAY_DIR=/verif/seeded/benign-$ID/replays /venv/bin/python /verif/check.py $P --no-evidence > /verif/seeded/benign-$ID/check_$P.out 2>&1; RC=$?
  echo "benign $ID: check $P exit $RC  $(grep -E 'runs=' /verif/seeded/benign-$ID/check_$P.out | cut -c1-160)"
done
