#!/bin/bash
# usage: try_seeded_wt.sh <seed-id> <property> <worktree with the patch applied> [extra check args]
# Runs the check against the worktree (VERIF_REPO_ROOT) instead of patching /repo.
set -u
ID=$1; PROP=$2; WT=$3; shift 3
mkdir -p /verif/seeded/$ID
VERIF_REPO_ROOT=$WT VERIF_REPLAY_DIR=/verif/seeded/$ID/replays /venv/bin/python /verif/check.py $PROP --no-evidence "$@" > /verif/seeded/$ID/check_$PROP.out 2>&1; RC=$?
echo "check $PROP on seeded $ID (worktree $WT): exit $RC"; grep -E "VIOLATION|class |runs=" /verif/seeded/$ID/check_$PROP.out | cut -c1-300 | head -6
