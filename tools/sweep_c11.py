"""Developer tool: run the C11 validators over all DateTime spec inputs (default options) at random instants."""
import json, sys, os, warnings
from collections import Counter
warnings.simplefilter('ignore')
sys.path.insert(0, os.path.dirname(os.path.dirname(os.path.abspath(__file__))))
from sim import boot, lib
from sim.decider import Decider
from oracles import shapes
boot.boot()
from datetime import datetime, timedelta
seed=int(sys.argv[1]); k=int(sys.argv[2]); part=int(sys.argv[3]) if len(sys.argv)>3 else 0; parts=int(sys.argv[4]) if len(sys.argv)>4 else 1
specs=[s for s in lib.load_model_specs(('DateTime',)) if s['opt']==0][part::parts]
dec=Decider(seed)
c=Counter(); shown=Counter(); n=0
for s in specs:
    for j in range(k):
        R = datetime(1950, 1, 1) + timedelta(seconds=dec.choice('R', 141 * 366 * 86400))
        if j==0 and s['ref']: R=lib.parse_reference(s['ref'])
        for e in lib.canon(lib.call_helper('DateTime', s['query'], s['culture'], 0, R)):
            n+=1
            for f in shapes.check_entity(e):
                key=(f['kind'], s['culture'], e[3])
                c[key]+=1
                if shown[key]<2:
                    shown[key]+=1
                    print(R.isoformat(), s['culture'], repr(s['query']), json.dumps(e, ensure_ascii=False)[:400], f['kind'])
print('entities', n)
for k_,v in c.most_common(): print(v,k_)
