#!/bin/bash
# usage: replay_seeded.sh <seed-id> <property> <replay file> — replay on the seeded tree (must exit 1) and on the clean tree (must exit 0)
ID=$1; PROP=$2; F=$3
git -C /repo apply /verif/seeded/$ID/patch.diff || exit 2
/venv/bin/python /verif/check.py $PROP --replay $F > /tmp/replay_seeded.out 2>&1; A=$?
git -C /repo checkout -- .
/venv/bin/python /verif/check.py $PROP --replay $F > /tmp/replay_clean.out 2>&1; B=$?
echo "replay on seeded tree: exit $A; on clean tree: exit $B"
