"""Build-time tool (run by hand on the pinned tree BEFORE the D1 repair, output committed): tuples whose result depends
on the decimal context of the calling thread. Kept as a fixed sentinel set of the C02 pool."""
import json, os, sys, threading, warnings
warnings.simplefilter('ignore')
sys.path.insert(0, os.path.dirname(os.path.dirname(os.path.abspath(__file__))))
from sim import boot, lib, callsim
boot.boot()
specs = [callsim.norm_tuple(s) for s in lib.load_model_specs(('Number', 'NumberWithUnit'))]
main = {s['key']: callsim.safe_call(callsim.do_call, s, 'helper') for s in specs}
other = {}
def f():
    for s in specs:
        other[s['key']] = callsim.safe_call(callsim.do_call, s, 'helper')
th = threading.Thread(target=f); th.start(); th.join()
keys = sorted(k for k in main if main[k] != other[k])
print(len(specs), len(keys))
json.dump({'_doc': 'tuple keys of Specs inputs whose result differed between the importing thread and a worker thread on the pinned tree before the D1 repair (thread-local decimal precision); fixed sentinel set of the C02 pool',
           'keys': keys}, open(os.path.join(boot.VERIF_DIR, 'data', 'sentinels.json'), 'w'), ensure_ascii=False, indent=0)
