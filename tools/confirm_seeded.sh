#!/bin/bash
# usage: confirm_seeded.sh <seed-id> <worktree> <demo-file-name>
# Confirms a seeded change independently: demo PASSes on the clean worktree, FAILs with the change; existing test suite
# unchanged with the change. Copies patch + demo into /verif/seeded/<seed-id>/. (No git stash: it is shared by worktrees.)
set -u
ID=$1; WT=$2; DEMO=$3
OUT=/verif/seeded/$ID; mkdir -p $OUT
cd $WT || exit 2
git diff -- Python > $OUT/patch.diff
cp $WT/$DEMO $OUT/ 2>/dev/null
git checkout -- Python
/venv/bin/python -W ignore $DEMO > $OUT/demo_clean.out 2>&1; RC_CLEAN=$?
git apply $OUT/patch.diff
/venv/bin/python -W ignore $DEMO > $OUT/demo_patched.out 2>&1; RC_PATCHED=$?
/venv/bin/python -m pytest -ra -q -p no:cacheprovider --timeout=900 --continue-on-collection-errors 2>&1 | tail -1 > $OUT/pytest_patched.out
echo "demo clean rc=$RC_CLEAN ($(tail -1 $OUT/demo_clean.out | cut -c1-80)); demo patched rc=$RC_PATCHED; pytest: $(cat $OUT/pytest_patched.out)"
