"""Developer tool: sequential sweep of one property's oracle over random instants (explicit reference). Not a check."""
import json
import sys
import os
import warnings
from collections import Counter

warnings.simplefilter('ignore')
sys.path.insert(0, os.path.dirname(os.path.dirname(os.path.abspath(__file__))))
from sim import boot, families, lib  # noqa
from sim.decider import Decider  # noqa
from oracles.judge import judge  # noqa

boot.boot()
from datetime import datetime, timedelta  # noqa
from recognizers_date_time import recognize_datetime  # noqa

prop, n, seed = sys.argv[1], int(sys.argv[2]), int(sys.argv[3]) if len(sys.argv) > 3 else 1
dec = Decider(seed)
fails = Counter()
shown = Counter()
for i in range(n):
    R = datetime(1950, 1, 1) + timedelta(seconds=dec.choice('R', 141 * 366 * 86400))
    if dec.choice('edge', 4) == 0:
        R = R.replace(hour=23, minute=59, second=59) if dec.choice('e', 2) else R.replace(hour=0, minute=0, second=0)
    if prop == 'C09':
        req = families.draw_c09(dec, near=R.date())
    else:
        req = getattr(families, 'draw_' + prop.lower())(dec)
    ents = lib.canon(recognize_datetime(req['text'], req['culture'], reference=R))
    f = judge(req, ents, R)
    if f:
        key = (req['family'], f['kind'], req['culture'], req['params'].get('layout') if prop == 'C06' else None, req['deciding'])
        fails[key] += 1
        if shown[key] < 2:
            shown[key] += 1
            print(R.isoformat(), R.strftime('%a'), json.dumps(req, ensure_ascii=False), json.dumps(f, ensure_ascii=False)[:600])
print('total', n)
for k, v in fails.most_common():
    print(v, k)
