"""Build-time calibration of the static tables under /verif/data (run by hand against the pinned tree, output committed).

A layout counts as supported by a culture iff the tree recognises it, bare, for three ordinary dates
(day > 12, mid-month) as ONE date entity with the right TIMEX and value. Never run by a check.
"""
import json
import os
import sys
import warnings

warnings.simplefilter('ignore')
sys.path.insert(0, os.path.dirname(os.path.dirname(os.path.abspath(__file__))))
from sim import boot, families  # noqa: E402

boot.boot()
from datetime import datetime  # noqa: E402
from recognizers_date_time import recognize_datetime  # noqa: E402

MONTHS = {
    'en-us': {'full': families.MONTHS_EN, 'abbr': families.MONTHS_EN_ABBR},
    'es-es': {'full': 'enero febrero marzo abril mayo junio julio agosto septiembre octubre noviembre diciembre'.split(),
              'abbr': 'ene feb mar abr may jun jul ago sep oct nov dic'.split()},
    'fr-fr': {'full': 'janvier février mars avril mai juin juillet août septembre octobre novembre décembre'.split(),
              'abbr': 'janv févr mars avr mai juin juil août sept oct nov déc'.split()},
    'pt-br': {'full': 'janeiro fevereiro março abril maio junho julho agosto setembro outubro novembro dezembro'.split(),
              'abbr': 'jan fev mar abr mai jun jul ago set out nov dez'.split()},
    'de-de': {'full': 'januar februar märz april mai juni juli august september oktober november dezember'.split(),
              'abbr': 'jan feb mär apr mai jun jul aug sep okt nov dez'.split()},
    'it-it': {'full': 'gennaio febbraio marzo aprile maggio giugno luglio agosto settembre ottobre novembre dicembre'.split(),
              'abbr': 'gen feb mar apr mag giu lug ago set ott nov dic'.split()},
    'nl-nl': {'full': 'januari februari maart april mei juni juli augustus september oktober november december'.split(),
              'abbr': 'jan feb mrt apr mei jun jul aug sep okt nov dec'.split()},
    'zh-cn': {'full': families.MONTHS_EN, 'abbr': families.MONTHS_EN_ABBR},
}
MONTHS['es-mx'] = MONTHS['es-es']
NUM_DMY = ['{Y}-{MM}-{DD}', '{D}/{M}/{Y}', '{DD}/{MM}/{Y}', '{D}-{M}-{Y}', '{DD}-{MM}-{Y}', '{D}.{M}.{Y}',
           '{DD}.{MM}.{Y}', '{Y}/{MM}/{DD}', '{Y}/{M}/{D}']
CANDIDATES = {
    'en-us': ['{Y}-{MM}-{DD}', '{M}/{D}/{Y}', '{MM}/{DD}/{Y}', '{M}-{D}-{Y}', '{MM}-{DD}-{Y}', '{Y}/{MM}/{DD}',
              '{Y}/{M}/{D}', '{Month} {D}, {Y}', '{Month} {D} {Y}', '{Month} {Dord}, {Y}', '{Month} {Dord} {Y}',
              '{D} {Month} {Y}', '{D} {Month}, {Y}', '{Dord} {Month} {Y}', '{Mon} {D}, {Y}', '{Mon} {D} {Y}',
              '{Mon} {Dord}, {Y}', '{Mon} {Dord} {Y}', '{D} {Mon} {Y}', '{Dord} of {Month} {Y}', '{Dord} of {Month}, {Y}',
              '{MonthCap} {D}, {Y}', '{MonCap} {D}, {Y}', '{Month} the {Dord}, {Y}', '{D}-{Mon}-{Y}', '{M}.{D}.{Y}',
              '{Y}.{MM}.{DD}', 'the {Dord} of {Month} {Y}'],
    'es-es': NUM_DMY + ['{D} de {Month} de {Y}', '{D} {Month} {Y}', '{D} de {Month} {Y}', '{D} de {Month} del {Y}', '{DordC} de {Month} de {Y}'],
    'es-mx': NUM_DMY + ['{D} de {Month} de {Y}', '{D} {Month} {Y}', '{D} de {Month} {Y}', '{D} de {Month} del {Y}', '{DordC} de {Month} de {Y}'],
    'pt-br': NUM_DMY + ['{D} de {Month} de {Y}', '{D} {Month} {Y}', '{D} de {Month} {Y}', '{DordC} de {Month} de {Y}', '{DordC} de {Mon} de {Y}'],
    'fr-fr': NUM_DMY + ['{D} {Month} {Y}', 'le {D} {Month} {Y}', '{D} {Month}, {Y}', '{DordC} {Month} {Y}', 'le {DordC} {Month} {Y}'],
    'de-de': NUM_DMY + ['{D}. {Month} {Y}', '{D} {Month} {Y}', '{D}. {MonthCap} {Y}'],
    'it-it': NUM_DMY + ['{D} {Month} {Y}', 'il {D} {Month} {Y}', '{D} {Month}, {Y}', '{DordC} {Month} {Y}'],
    'nl-nl': NUM_DMY + ['{D} {Month} {Y}', '{D} {Mon} {Y}', '{Month} {D}, {Y}', '{DordC} {Month} {Y}'],
    'zh-cn': ['{Y}-{MM}-{DD}', '{Y}/{MM}/{DD}', '{Y}/{M}/{D}', '{Y}年{M}月{D}日', '{Y}年{M}月{D}号', '{Y}年{MM}月{DD}日',
              '{Y}.{MM}.{DD}', '{Y}-{M}-{D}'],
}
CARRIERS = {
    'en-us': families.CARRIERS_EN_DATE,
    'es-es': ['{}', 'ocurrió el {}', 'la entrega es el {}.'], 'es-mx': ['{}', 'ocurrió el {}', 'la entrega es el {}.'],
    'pt-br': ['{}', 'aconteceu em {}', 'a entrega é {}.'],
    'fr-fr': ['{}', "c'est arrivé le {}", 'la réunion est prévue le {}.'],
    'de-de': ['{}', 'es geschah am {}', 'der Termin ist am {}.'],
    'it-it': ['{}', 'è successo il {}', 'la consegna è il {}.'],
    'nl-nl': ['{}', 'het gebeurde op {}', 'de afspraak is op {}.'],
    'zh-cn': ['{}', '会议定在{}', '他出生于{}。'],
}
PROBES = [(2005, 3, 17), (2011, 10, 23), (1987, 6, 15)]
PROBES_ORDINAL = [(2005, 3, 1), (2011, 10, 2), (1987, 6, 17)]      # ordinal day forms are mostly used for small days
REF = datetime(2016, 11, 7, 10, 30, 0)


def ok_abs(text, culture, y, m, d, span=None):
    r = recognize_datetime(text, culture, reference=REF)
    s = '%04d-%02d-%02d' % (y, m, d)
    if span is not None:
        r = [x for x in r if not (x.end < span[0] or x.start > span[1])]
    if len(r) != 1:
        return False
    x = r[0]
    return x.type_name == 'datetimeV2.date' and x.resolution == {'values': [{'timex': s, 'type': 'date', 'value': s}]}


def category(layout, culture):
    """Which of the statement's layout classes a row belongs to; anything else is 'extra' (informational only)."""
    if layout == '{Y}-{MM}-{DD}':
        return 'iso'
    if 'Mon' in layout:
        return 'month-name'
    order = {'en-us': 'MDY', 'zh-cn': 'YMD'}.get(culture, 'DMY')
    import re
    for sep in '/-':
        fields = layout.split(sep)
        if len(fields) == 3 and all(re.fullmatch(r'\{(Y|MM?|DD?)\}', f) for f in fields):
            if ''.join(f[1] for f in fields) == order:
                return 'numeric'
    if culture == 'zh-cn' and '年' in layout:
        return 'month-name'
    return 'extra'


def main():
    families._cache['layouts.json'] = {'month_names': MONTHS, 'layouts': {}, 'carriers': CARRIERS}
    layouts = {}
    for culture, cands in CANDIDATES.items():
        rows = []
        for lay in cands:
            probes = PROBES_ORDINAL if 'DordC' in lay else PROBES
            sup = all(ok_abs(families.render_layout(lay, y, m, d, culture), culture, y, m, d) for y, m, d in probes)
            cat = category(lay, culture)
            rows.append({'layout': lay, 'supported': bool(sup), 'category': cat, 'deciding': cat != 'extra'})
        layouts[culture] = rows
        print(culture, [(r['layout'], r['supported'], r['category']) for r in rows if not r['supported'] or not r['deciding']])
    carriers = {}
    for culture, cs in CARRIERS.items():
        good = []
        sup = [r['layout'] for r in layouts[culture] if r['supported']]
        for c in cs:
            empty = recognize_datetime(c.replace('{}', 'xyzzy'), culture, reference=REF)
            fine = not empty
            for lay in sup:
                lit = families.render_layout(lay, 2005, 3, 17, culture)
                pos = c.index('{}')
                fine = fine and ok_abs(c.replace('{}', lit), culture, 2005, 3, 17, [pos, pos + len(lit) - 1])
            if fine:
                good.append(c)
            else:
                print('carrier rejected', culture, repr(c))
        carriers[culture] = good
    out = {'_doc': 'static table established against the pinned tree at build time by tools/calibrate.py; never recalibrated by a check',
           'month_names': MONTHS, 'layouts': layouts, 'carriers': carriers}
    with open(os.path.join(families.DATA_DIR, 'layouts.json'), 'w', encoding='utf-8') as f:
        json.dump(out, f, ensure_ascii=False, indent=1, sort_keys=True)


if __name__ == '__main__':
    main()
