#!/bin/bash
# usage: try_seeded.sh <seed-id> <property> [extra check args]   — apply the seeded patch to /repo, run the check, undo.
set -u
ID=$1; PROP=$2; shift 2
cd /repo && git status --porcelain -- Python | grep -q . && { echo "/repo not clean"; exit 2; }
git -C /repo apply /verif/seeded/$ID/patch.diff || exit 2
VERIF_REPLAY_DIR=/verif/seeded/$ID/replays /venv/bin/python /verif/check.py $PROP --no-evidence "$@" > /verif/seeded/$ID/check_$PROP.out 2>&1; RC=$?
git -C /repo checkout -- .
echo "check $PROP on seeded $ID: exit $RC"; grep -E "VIOLATION|class |runs=" /verif/seeded/$ID/check_$PROP.out | cut -c1-300 | head -8
