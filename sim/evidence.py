"""Evidence files (/verif/evidence/<id>.json) — written by the check itself on every run, from measured counts only."""
import json
import os

from .boot import VERIF_DIR, repo_head

COMMON_ASSUMPTIONS = [
    'datedelta and grapheme are not installable in this sandbox and run as the stand-ins under /verif/stubs (semantics from the packages\' documentation); every date-time / choice verdict inherits their fidelity',
    'a clean batch is evidence, not proof: schedules, instants and faults are seeded samples',
]


def write(prop, tier, seed, level, coverage, assumptions, wall_s, violations, extra=None):
    doc = {
        'property_id': prop, 'tier': tier, 'seed': int(seed), 'level': level, 'coverage': coverage,
        'assumptions': list(assumptions) + COMMON_ASSUMPTIONS, 'wall_s': round(float(wall_s), 2),
        'violations': int(violations), 'repo': repo_head(),
    }
    if extra:
        doc.update(extra)
    d = os.path.join(VERIF_DIR, 'evidence')
    os.makedirs(d, exist_ok=True)
    tmp = os.path.join(d, prop + '.json.tmp')
    with open(tmp, 'w', encoding='utf-8') as f:
        json.dump(doc, f, ensure_ascii=False, indent=1, sort_keys=True)
    os.replace(tmp, os.path.join(d, prop + '.json'))
