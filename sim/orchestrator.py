"""Runs worker processes (one fresh interpreter per batch), collects reports, never lets a hang look like success."""
import json
import os
import shutil
import subprocess
import sys
import tempfile
import time

from .boot import HarnessError, VERIF_DIR, REPO_ROOT
from .decider import derive_seed

PY = sys.executable
WORKER = os.path.join(VERIF_DIR, 'sim', 'worker.py')


def scratch_dir():
    base = os.environ.get('VERIF_SCRATCH') or tempfile.gettempdir()
    return tempfile.mkdtemp(prefix='rtverif-', dir=base)


def hashseed_for(seed, check, batch):
    return derive_seed(seed, check, 'hashseed', batch) % 4294967295


def run_jobs(jobs, workers, timeout_s, scratch):
    """jobs: list of dicts (must contain 'kind'); each gets 'out' and runs in a fresh interpreter with
    PYTHONHASHSEED=job['hashseed']. -> list of reports in job order. Raises HarnessError on timeout/crash."""
    pending = list(enumerate(jobs))
    running = {}
    slots = list(range(workers))      # one CPU slot per concurrently running job (see worker.py)
    reports = [None] * len(jobs)
    errors = []
    while pending or running:
        while pending and len(running) < workers:
            i, job = pending.pop(0)
            job = dict(job)
            job['cpu_slot'] = slots.pop(0)
            job['out'] = os.path.join(scratch, 'job-%d-%s.out.json' % (i, os.urandom(3).hex()))
            jf = job['out'].replace('.out.json', '.job.json')
            with open(jf, 'w', encoding='utf-8') as f:
                json.dump(job, f, ensure_ascii=False)
            env = {k: v for k, v in os.environ.items() if not k.startswith('PYTHON')}
            env.update({'PYTHONHASHSEED': str(job.get('hashseed', 0)), 'PYTHONDONTWRITEBYTECODE': '1',
                        'VERIF_REPO_ROOT': REPO_ROOT, 'PYTHONIOENCODING': 'utf-8'})
            log = open(job['out'].replace('.out.json', '.log'), 'wb')
            p = subprocess.Popen([PY, WORKER, jf], env=env, stdout=log, stderr=subprocess.STDOUT, cwd=VERIF_DIR)
            running[i] = (p, job, time.time(), log)
        time.sleep(0.05)
        for i in list(running):
            p, job, t0, log = running[i]
            rc = p.poll()
            if rc is None:
                if time.time() - t0 > timeout_s:
                    p.kill()
                    p.wait()
                    log.close()
                    del running[i]
                    slots.append(job['cpu_slot'])
                    errors.append('job %d (%s) exceeded its %ds hang guard' % (i, job['kind'], timeout_s))
                continue
            log.close()
            del running[i]
            slots.append(job['cpu_slot'])
            if not os.path.exists(job['out']):
                tail = open(log.name, "rb").read()[-9000:].decode('utf-8', 'replace')
                errors.append('job %d (%s) exited %s without a report: %s' % (i, job['kind'], rc, tail))
                continue
            with open(job['out'], encoding='utf-8') as f:
                rep = json.load(f)
            if not rep.get('ok'):
                errors.append('job %d (%s) failed: %s\n%s' % (i, job['kind'], rep.get('error'), rep.get('traceback', '')[-1500:]))
                continue
            rep['job_wall_s'] = round(time.time() - t0, 1)
            reports[i] = rep
            os.remove(job['out'])
        if errors:
            for i in list(running):
                running[i][0].kill()
                running[i][0].wait()
                running[i][3].close()
            raise HarnessError('; '.join(errors))
    return reports


def cleanup(scratch):
    shutil.rmtree(scratch, ignore_errors=True)
