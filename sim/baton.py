"""Baton scheduler: real threads, exactly one runs at a time, the simulator decides who.

Pre-emption points are `sys.settrace` line events in files of the library under test (not its resources/). A switch hands
the baton to another client thread and parks the current one on its own Event. Faults (abort, alloc-fail, stall) are
delivered from the trace function at a chosen step of a chosen op. Every decision is recorded as
(client, op index, step within op) -> action, so that a recorded schedule can be replayed without the PRNG.
"""
import os
import sys
import threading

from .boot import LIB_ROOT, HarnessError


def _hang(msg):
    """The simulation itself is stuck (a caller never got the baton back): dump every thread's stack into the worker log
    and end the worker at once — the orchestrator reports it as a harness error with the log tail. Continuing would
    let library `except Exception` clauses swallow the error and run without baton discipline."""
    import faulthandler
    sys.stderr.write('SIMULATION HANG: %s\n' % msg)
    try:
        from . import simlock
        last = simlock.TRACE[-1][1] if simlock.TRACE else None
        ev = [e for e in simlock.TRACE if e[1] == last]
        first_leak = 0
        for i, e in enumerate(ev):
            if e[0] == 'rel':
                first_leak = i
        sys.stderr.write('events of the contended lock since its last release: %r\n' % (ev[max(0, first_leak - 3):first_leak + 12],))
    except Exception:   # noqa
        pass
    faulthandler.dump_traceback(file=sys.stderr, all_threads=True)
    sys.stderr.flush()
    os._exit(4)


class Abort(BaseException):
    """Injected caller abort (request timeout / killed worker thread)."""


class WorkerPool:
    """Long-lived pooled caller threads (a server's worker pool): thread-local state — decimal context, anything the
    library parks in threading.local — survives from one simulated run to the next, as it does in a real service."""

    def __init__(self):
        self.workers = {}

    def submit(self, slot, fn, *args):
        w = self.workers.get(slot)
        if w is None or not w['thread'].is_alive():
            w = {'todo': None, 'wake': threading.Event(), 'thread': None}
            w['thread'] = threading.Thread(target=self._loop, args=(w,), name='client-%d' % slot, daemon=True)
            self.workers[slot] = w
            w['thread'].start()
        w['todo'] = (fn, args)
        w['wake'].set()
        return w['thread']

    @staticmethod
    def _loop(w):
        while True:
            w['wake'].wait()
            w['wake'].clear()
            fn, args = w['todo']
            w['todo'] = None
            try:
                fn(*args)
            except BaseException:   # noqa  (reported through sched.error by the body itself)
                pass


POOL = WorkerPool()


class Client:
    def __init__(self, cid, ops, placement='pooled'):
        self.cid = cid
        self.ops = ops                  # list of op dicts
        self.placement = placement      # 'main' | 'pooled'
        self.go = threading.Event()
        self.done = False
        self.stalled = False
        self.op_idx = -1
        self.step_in_op = 0
        self.steps = 0
        self.next_point = -1            # step_in_op at which to consult the policy (replay / per-op plans)
        self.fault_at = -1              # step_in_op at which the pending fault fires
        self.fault_kind = None
        self.results = []
        self.thread = None
        self.in_op = False
        self.lib_depth = 0
        self.blocked_on = None          # a library lock (SimLock) this client is waiting for
        self.thread_ident = None        # OS thread currently executing this client's ops
        self.op_faulted = False         # a fault already fired in the current op
        self.op_dirty_seen = False      # the first dirty detection of the current op already happened


def _is_lib_file(fn):
    if not fn.startswith(LIB_ROOT):
        return False
    return (os.sep + 'resources' + os.sep) not in fn


class Baton:
    def __init__(self, clients, policy, step_cap=5_000_000, hang_s=600):
        self.clients = clients
        self.clients_by_id = {c.cid: c for c in clients}
        self.policy = policy
        self.current = None
        self.all_done = threading.Event()
        self.global_step = 0
        self.next_g = -1                # global step at which to consult the policy
        self.switches = []              # [from cid, op_idx, step_in_op, to cid, 'file:line', why]
        self.faults_fired = []          # [cid, op_idx, step_in_op, kind, site]
        self.finishes = []              # [finished cid, next cid or None]
        self.sites = set()
        self.step_cap = step_cap
        self.hang_s = hang_s
        self._code_cache = {}
        self.error = None
        self.barrier_hits = 0
        self.lock_switches = 0
        self.deadlock = False
        self.dirty_probe = None         # callable: are shared containers away from their quiescent sizes?
        self.dirty_hits = 0
        self.capped = False

    # ------------------------------------------------------------------ tracing
    def tracer_for(self, client):
        cache = self._code_cache
        sched = self

        def local_tr(frame, event, arg):
            if event == 'line':
                client.step_in_op += 1
                g = sched.global_step = sched.global_step + 1
                if client.step_in_op == client.fault_at:
                    sched._fire_fault(client, frame)
                ng = sched.next_g
                if (ng >= 0 and g >= ng) or client.step_in_op == client.next_point:
                    sched._consult(client, frame, 'step')
                elif not g & 63 and sched.dirty_probe is not None and sched.dirty_probe():
                    sched.dirty_hits += 1
                    sched.barrier_hit(client, frame, 'dirty')
                if g > sched.step_cap and not sched.capped:
                    sched.capped = True
                    sched.next_g = -1
                    sys.settrace(None)      # run to completion without pre-emption, at full speed
                    return None
            return local_tr

        def global_tr(frame, event, arg):
            co = frame.f_code
            ok = cache.get(co)
            if ok is None:
                ok = cache[co] = _is_lib_file(co.co_filename)
            if ok and client.in_op and not sched.capped:
                return local_tr
            return None

        return global_tr

    def _site(self, frame):
        return '%s:%d' % (os.path.basename(frame.f_code.co_filename), frame.f_lineno)

    @staticmethod
    def _unsafe_fault_point(frame):
        """A line event on a `with` / `try:` header can fire AFTER __enter__ / acquire() has run but before the block's
        handler is armed (CPython re-enters the header line when the call returns). Only an asynchronous exception can
        land there in real life, and the standard `with lock:` idiom is not expected to survive that: an injected
        abort / allocation failure is postponed to the next line instead of leaking the lock."""
        import linecache
        text = linecache.getline(frame.f_code.co_filename, frame.f_lineno).lstrip()
        return text.startswith(('with ', 'try:', 'async with '))

    def _fire_fault(self, client, frame):
        kind = client.fault_kind
        if kind != 'stall' and self._unsafe_fault_point(frame):
            client.fault_at = client.step_in_op + 1
            return
        client.fault_at = -1
        client.op_faulted = True
        self.faults_fired.append([client.cid, client.op_idx, client.step_in_op, kind, self._site(frame)])
        if kind == 'abort':
            raise Abort('injected abort')
        if kind in ('alloc-fail-call', 'alloc-fail-ctor'):
            raise MemoryError('injected allocation failure')
        if kind == 'stall':
            client.stalled = True
            target = self.policy.pick_other(self, client)
            if target is not None:
                self._switch(client, target, frame, 'stall')
            client.stalled = False

    def _consult(self, client, frame, why):
        if self.capped:
            return
        target = self.policy.at_point(self, client, why)
        if target is not None and target is not client:
            self._switch(client, target, frame, why)
        else:
            self.policy.on_resume(self, client)

    def barrier_hit(self, client, frame, why='barrier'):
        """Shared state is being modified right now: an attribute write to an object reachable from a cached model
        (write barrier, called after the write) or the watched shared containers are away from their quiescent sizes
        (dirty probe). The most damaging instants for a fault or a pre-emption, so the policy may (a) park the thread
        here until the others have finished (`dirty-stall`), (b) kill the request here (`dirty-abort`), (c) switch."""
        self.barrier_hits += 1
        if not client.in_op or self.capped:
            return
        first = not client.op_dirty_seen
        client.op_dirty_seen = True
        if not client.op_faulted:
            k = self.policy.dirty_fault(self, client, first, why)
            if k == 'abort' and frame is not None and self._unsafe_fault_point(frame):
                k = None
            if k is not None:
                client.op_faulted = True
                self.faults_fired.append([client.cid, client.op_idx, client.step_in_op, 'dirty-' + k, self._site(frame), why])
                if k == 'abort':
                    raise Abort('injected abort while shared state is being modified')
                client.stalled = True
                target = self.policy.pick_other(self, client)
                if target is not None:
                    self._switch(client, target, frame, 'stall')
                client.stalled = False
                return
        target = self.policy.at_point(self, client, why)
        if target is not None and target is not client:
            self._switch(client, target, frame, why)

    def _switch(self, me, target, frame, why):
        site = self._site(frame) if frame is not None else '-'
        self.sites.add(site)
        self.switches.append([me.cid, me.op_idx, me.step_in_op, target.cid, site, why])
        if why == 'lock':
            self.policy.note_forced(self, me, why)
        self._handover(target)
        if not me.go.wait(self.hang_s):
            _hang('client %d never got the baton back after switching to client %d at %s (%s); clients: %r' % (
                me.cid, target.cid, site, why,
                [(c.cid, 'done' if c.done else 'live', c.op_idx, 'in_op' if c.in_op else '-', 'stalled' if c.stalled else '-',
                  None if c.blocked_on is None else getattr(c.blocked_on, '_owner', '?')) for c in self.clients]))
        me.go.clear()
        self.policy.on_resume(self, me)

    def _handover(self, target):
        self.current = target.cid
        target.go.set()

    # ------------------------------------------------------------------ client life cycle
    def runnable(self, exclude=None):
        out = []
        for c in self.clients:
            if c.done or c is exclude:
                continue
            if c.blocked_on is not None and c.blocked_on.locked():
                continue            # waiting for a library lock somebody still holds
            out.append(c)
        return out

    def block_on_lock(self, client, lock, frame):
        """A simulated caller would block on a library lock: hand the baton to the owner (or to anybody who can run);
        if nobody can, the library has deadlocked under this schedule."""
        client.blocked_on = lock
        owner = self.clients_by_id.get(lock.owner_client_id())
        cands = self.runnable(exclude=client)
        target = owner if (owner is not None and owner in cands) else (cands[0] if cands else None)
        if target is None:
            # every simulated caller waits for a library lock: the library deadlocks under this schedule. Unwind this
            # caller (its `with lock:` blocks release on the way out) so that the run can finish, and flag the run.
            client.blocked_on = None
            self.deadlock = self._site(frame)
            raise Abort('deadlock on a library lock')
        self.lock_switches += 1
        self._switch(client, target, frame, 'lock')
        client.blocked_on = None

    def _client_main(self, client, exec_op):
        """Body of a client (runs on its own thread, or on the main thread for placement 'main')."""
        if not client.go.wait(self.hang_s):
            _hang('client %d never started' % client.cid)
        client.go.clear()
        self.policy.on_resume(self, client)
        tr = self.tracer_for(client)
        try:
            for i, op in enumerate(client.ops):
                client.op_idx = i
                client.step_in_op = 0
                client.op_faulted = False
                client.op_dirty_seen = False
                self.policy.on_op_start(self, client, op)
                if op.get('fresh_thread'):
                    self._run_in_fresh_thread(client, op, exec_op, tr)
                else:
                    self._run_op(client, op, exec_op, tr)
                client.steps += client.step_in_op
        except HarnessError as e:
            self.error = str(e)
        finally:
            sys.settrace(None)
            client.done = True
            client.in_op = False
            nxt = self.policy.on_finish(self, client)
            self.finishes.append([client.cid, None if nxt is None else nxt.cid])
            if nxt is None:
                self.all_done.set()
            else:
                self._handover(nxt)

    def _run_op(self, client, op, exec_op, tr):
        client.thread_ident = threading.get_ident()
        sys.settrace(None if self.capped else tr)
        client.in_op = True
        try:
            res = exec_op(client, op)
        finally:
            client.in_op = False
            sys.settrace(None)
        client.results.append(res)

    def _run_in_fresh_thread(self, client, op, exec_op, tr):
        done = threading.Event()
        box = {}

        def body():
            try:
                self._run_op(client, op, exec_op, tr)
            except BaseException as e:   # noqa
                box['err'] = e
            finally:
                done.set()
        th = threading.Thread(target=body, name='fresh-c%d-op%d' % (client.cid, client.op_idx), daemon=True)
        th.start()
        if not done.wait(self.hang_s):
            _hang('fresh thread of client %d hung' % client.cid)
        th.join(5)
        if 'err' in box:
            raise HarnessError('fresh thread of client %d died: %r' % (client.cid, box['err']))

    def run(self, exec_op):
        """Run all clients to completion under the policy. The calling (main) thread is the client with placement
        'main' if there is one."""
        main_client = None
        for c in self.clients:
            if c.placement == 'main' and main_client is None:
                main_client = c
            else:
                c.placement = 'pooled' if c.placement == 'main' else c.placement
                c.thread = None
                POOL.submit(c.cid, self._client_main, c, exec_op)
        first = self.policy.first(self)
        self.first_cid = first.cid
        self.policy.on_resume(self, first)
        self._handover(first)
        if main_client is not None:
            self._client_main(main_client, exec_op)
        if not self.all_done.wait(self.hang_s):
            _hang(self.error or 'not all clients finished')
        if self.error:
            raise HarnessError(self.error)


# ---------------------------------------------------------------------------------------------------- policies

class BasePolicy:
    def first(self, sched):
        return sched.clients[0]

    def on_op_start(self, sched, client, op):
        f = op.get('fault')
        if f and f['kind'] in ('abort', 'alloc-fail-call', 'alloc-fail-ctor', 'stall'):
            client.fault_at = f['step']
            client.fault_kind = f['kind']
        else:
            client.fault_at = -1

    def on_resume(self, sched, client):
        pass

    def at_point(self, sched, client, why):
        return None

    def note_forced(self, sched, client, why):
        pass

    dirty = None        # {'stall': p_first, 'abort': p_first} or None (fault-free run)

    def dirty_fault(self, sched, client, first, why='barrier'):
        d = self.dirty
        dec = getattr(self, 'dec', None)
        if not d or dec is None or len(sched.runnable(exclude=client)) == 0 and not d.get('abort'):
            return None
        scale = 1.0 if first else 0.3
        if d.get('stall') and len(sched.runnable(exclude=client)) and dec.chance('dirty-stall', d['stall'] * scale):
            return 'stall'
        if d.get('abort') and dec.chance('dirty-abort', d['abort'] * scale):
            return 'abort'
        return None

    def pick_other(self, sched, client):
        r = [c for c in sched.runnable(exclude=client) if not c.stalled]
        return r[0] if r else None

    def on_finish(self, sched, client):
        r = sched.runnable()
        if not r:
            return None
        ns = [c for c in r if not c.stalled]
        return (ns or r)[0]


class RandomWalkPolicy(BasePolicy):
    """Switch after a geometrically distributed number of steps; always consider switching at a write-barrier hit."""

    def __init__(self, dec, p_switch, p_barrier=0.5):
        self.dec = dec
        self.p = p_switch
        self.pb = p_barrier

    def first(self, sched):
        return sched.clients[self.dec.choice('first', len(sched.clients))]

    def _gap(self):
        import math
        u = self.dec.uniform('gap', 1e-12, 1.0)
        return 1 + int(math.log(u) / math.log(1.0 - self.p))

    def on_resume(self, sched, client):
        sched.next_g = sched.global_step + self._gap()

    def _other(self, sched, client):
        r = [c for c in sched.runnable(exclude=client) if not c.stalled]
        if not r:
            return None
        return r[self.dec.choice('pick', len(r))]

    def at_point(self, sched, client, why):
        if why in ('barrier', 'dirty') and not self.dec.chance('barrier', self.pb):
            return None
        return self._other(sched, client)

    def pick_other(self, sched, client):
        return self._other(sched, client)

    def on_finish(self, sched, client):
        r = sched.runnable()
        if not r:
            return None
        ns = [c for c in r if not c.stalled] or r
        return ns[self.dec.choice('pick', len(ns))]


class RoundRobinPolicy(BasePolicy):
    """Fine-grained time slicing: every client runs a quantum of q steps (q jittered +-50 %), then the next one in a
    rotating order. Keeps all clients inside the same phase of similar ops at the same time — the schedule family that
    exposes WIDE-window races on shared objects (state parked on a shared parser for the length of a sub-call), which
    PCT (few, deep switches) and a sparse random walk rarely hit."""

    def __init__(self, dec, quantum):
        self.dec = dec
        self.q = max(2, int(quantum))

    def first(self, sched):
        return sched.clients[self.dec.choice('first', len(sched.clients))]

    def on_resume(self, sched, client):
        sched.next_g = sched.global_step + max(1, self.q // 2 + self.dec.choice('jitter', self.q))

    def _next(self, sched, client):
        r = [c for c in sched.runnable(exclude=client) if not c.stalled]
        if not r:
            return None
        later = [c for c in r if c.cid > client.cid]
        return (later or r)[0]

    def at_point(self, sched, client, why):
        if why in ('barrier', 'dirty') and not self.dec.chance('barrier', 0.5):
            return None
        return self._next(sched, client)

    def pick_other(self, sched, client):
        return self._next(sched, client)

    def on_finish(self, sched, client):
        r = sched.runnable()
        if not r:
            return None
        ns = [c for c in r if not c.stalled] or r
        later = [c for c in ns if c.cid > client.cid]
        return (later or ns)[0]


class PCTPolicy(BasePolicy):
    """Probabilistic concurrency testing: random distinct priorities, d-1 priority change points at drawn global steps;
    the highest-priority runnable client always runs. Write-barrier hits count as extra (coin-flipped) change points."""

    def __init__(self, dec, n_clients, depth, k_estimate, p_barrier=0.5):
        self.dec = dec
        order = dec.sample('prio', list(range(n_clients)), n_clients)
        self.prio = {cid: depth + i for i, cid in enumerate(order)}
        self.change = sorted(1 + dec.choice('change', max(1, k_estimate)) for _ in range(max(0, depth - 1)))
        self.low = depth - 1
        self.pb = p_barrier

    def _best(self, sched, exclude=None):
        r = [c for c in sched.runnable(exclude=exclude) if not c.stalled]
        if not r:
            return None
        return max(r, key=lambda c: self.prio[c.cid])

    def first(self, sched):
        return self._best(sched)

    def on_resume(self, sched, client):
        sched.next_g = self.change[0] if self.change else -1
        if self.change and sched.next_g <= sched.global_step:
            sched.next_g = sched.global_step + 1

    def _demote(self, client):
        self.prio[client.cid] = self.low
        self.low -= 1

    def at_point(self, sched, client, why):
        if why in ('barrier', 'dirty'):
            if not self.dec.chance('barrier', self.pb):
                return None
        elif self.change:
            self.change.pop(0)
        self._demote(client)
        b = self._best(sched)
        return b

    def pick_other(self, sched, client):
        return self._best(sched, exclude=client)

    def on_finish(self, sched, client):
        r = sched.runnable()
        if not r:
            return None
        return self._best(sched) or r[0]


class ReplayPolicy(BasePolicy):
    """Feeds a recorded switch list back: entries [from cid, op_idx, step_in_op, to cid, site, why]."""

    def __init__(self, first_cid, switches, finish_order=None, dirty_faults=None):
        self.first_cid = first_cid
        self.dirty_faults = {(f[0], f[1], f[2], (f[5] if len(f) > 5 else 'barrier')): f[3][6:]
                             for f in (dirty_faults or []) if str(f[3]).startswith('dirty-')}
        self.by_client = {}
        for s in switches:
            self.by_client.setdefault(s[0], []).append(s)
        self.divergent = 0
        self.finish_targets = list(finish_order or [])

    def first(self, sched):
        for c in sched.clients:
            if c.cid == self.first_cid:
                return c
        return sched.clients[0]

    def _arm(self, sched, client):
        q = self.by_client.get(client.cid, [])
        while q and (q[0][1] < client.op_idx or (q[0][1] == client.op_idx and q[0][2] < client.step_in_op)):
            q.pop(0)
            self.divergent += 1
        sched.next_g = -1
        client.next_point = q[0][2] if q and q[0][1] == client.op_idx and q[0][5] == 'step' else -1

    def on_op_start(self, sched, client, op):
        BasePolicy.on_op_start(self, sched, client, op)
        self._arm(sched, client)

    def on_resume(self, sched, client):
        self._arm(sched, client)

    def at_point(self, sched, client, why):
        q = self.by_client.get(client.cid, [])
        if not q or q[0][1] != client.op_idx:
            return None
        if q[0][5] != why or q[0][2] != client.step_in_op:
            return None
        s = q.pop(0)
        for c in sched.clients:
            if c.cid == s[3] and not c.done:
                return c
        self.divergent += 1
        return None

    def dirty_fault(self, sched, client, first, why='barrier'):
        return self.dirty_faults.get((client.cid, client.op_idx, client.step_in_op, why))

    def note_forced(self, sched, client, why):
        q = self.by_client.get(client.cid, [])
        if q and q[0][5] == why and q[0][1] == client.op_idx and q[0][2] == client.step_in_op:
            q.pop(0)

    def pick_other(self, sched, client):
        return self.at_point(sched, client, 'stall') or BasePolicy.pick_other(self, sched, client)

    def on_finish(self, sched, client):
        r = sched.runnable()
        if not r:
            return None
        if self.finish_targets:
            want = self.finish_targets.pop(0)
            for c in r:
                if c.cid == want:
                    return c
            self.divergent += 1
        ns = [c for c in r if not c.stalled] or r
        return ns[0]
