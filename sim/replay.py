"""Replay a recorded violation file in a fresh worker process; it must fail the same way."""
import json

from . import orchestrator as orch


def main(prop, path):
    with open(path, encoding='utf-8') as f:
        doc = json.load(f)
    if doc.get('check') != prop:
        print('HARNESS-ERROR replay file is for %s, not %s' % (doc.get('check'), prop))
        return 2
    scratch = orch.scratch_dir()
    try:
        if doc['engine'] == 'clocksim':
            from . import clockcheck
            outs = clockcheck.replay_in_fresh_process(prop, doc['events'], doc.get('hashseed', 0), scratch)
            last = outs[-1]
            v = last.get('violation')
            if v and v['class'] == doc['class']:
                print('reproduced: %s' % json.dumps(v['failure'], ensure_ascii=False)[:600])
                print('VIOLATION property=%s replay=%s' % (prop, path))
                return 1
            if last.get('known'):
                print('KNOWN-FINDING: property=%s %s (replay matches a listed finding)' % (prop, last['known']))
                return 0
            print('not reproduced on this tree (class %s); last outcome: %s' % (doc['class'], json.dumps(last, ensure_ascii=False)[:400]))
            return 0
        from . import callcheck
        return callcheck.replay_main(prop, doc, path, scratch)
    finally:
        orch.cleanup(scratch)
