"""Access to the library under simulation: model kinds, spec corpus, canonical results.

Everything that imports the tree does so lazily, after sim.boot.boot().
"""
import glob
import hashlib
import json
import os
import re

from . import boot

CULTURE_OF_LANGUAGE = {
    'Chinese': 'zh-cn', 'Dutch': 'nl-nl', 'English': 'en-us', 'French': 'fr-fr', 'Italian': 'it-it',
    'Japanese': 'ja-jp', 'Korean': 'ko-kr', 'Portuguese': 'pt-br', 'Spanish': 'es-es',
    'SpanishMexican': 'es-mx', 'Turkish': 'tr-tr', 'German': 'de-de',
}

# kind -> (package, recognizer class name, model type name, helper function name, getter name, takes reference)
KINDS = {
    'Number': ('recognizers_number', 'NumberRecognizer', 'NumberModel', 'recognize_number', 'get_number_model', False),
    'Ordinal': ('recognizers_number', 'NumberRecognizer', 'OrdinalModel', 'recognize_ordinal', 'get_ordinal_model', False),
    'Percent': ('recognizers_number', 'NumberRecognizer', 'PercentModel', 'recognize_percentage', 'get_percentage_model', False),
    'Age': ('recognizers_number_with_unit', 'NumberWithUnitRecognizer', 'AgeModel', 'recognize_age', 'get_age_model', False),
    'Currency': ('recognizers_number_with_unit', 'NumberWithUnitRecognizer', 'CurrencyModel', 'recognize_currency', 'get_currency_model', False),
    'Dimension': ('recognizers_number_with_unit', 'NumberWithUnitRecognizer', 'DimensionModel', 'recognize_dimension', 'get_dimension_model', False),
    'Temperature': ('recognizers_number_with_unit', 'NumberWithUnitRecognizer', 'TemperatureModel', 'recognize_temperature', 'get_temperature_model', False),
    'DateTime': ('recognizers_date_time', 'DateTimeRecognizer', 'DateTimeModel', 'recognize_datetime', 'get_datetime_model', True),
    'PhoneNumber': ('recognizers_sequence', 'SequenceRecognizer', 'PhoneNumberModel', 'recognize_phone_number', 'get_phone_number_model', False),
    'Email': ('recognizers_sequence', 'SequenceRecognizer', 'EmailModel', 'recognize_email', 'get_email_model', False),
    'URL': ('recognizers_sequence', 'SequenceRecognizer', 'URLModel', 'recognize_url', 'get_url_model', False),
    'GUID': ('recognizers_sequence', 'SequenceRecognizer', 'GUIDModel', 'recognize_guid', 'get_guid_model', False),
    'Mention': ('recognizers_sequence', 'SequenceRecognizer', 'MentionModel', 'recognize_mention', 'get_mention_model', False),
    'Hashtag': ('recognizers_sequence', 'SequenceRecognizer', 'HashtagModel', 'recognize_hashtag', 'get_hashtag_model', False),
    'IpAddress': ('recognizers_sequence', 'SequenceRecognizer', 'IpAddressModel', 'recognize_ip_address', 'get_ip_address_model', False),
    'Boolean': ('recognizers_choice', 'ChoiceRecognizer', 'BooleanModel', 'recognize_boolean', 'get_boolean_model', False),
}
SPEC_DIR_OF_RECOGNIZER = {'Number': 'Number', 'NumberWithUnit': 'NumberWithUnit', 'DateTime': 'DateTime',
                          'Sequence': 'Sequence', 'Choice': 'Choice'}
DT_OPTION_OF_SUFFIX = {'': 0, 'CalendarMode': 4, 'SplitDateAndTime': 2, 'SkipFromTo': 1}

_ENTITY = re.compile('(.*)(Model|Parser|Extractor|Resolver)(.*)')


def _import(name):
    import importlib
    return importlib.import_module(name)


def recognizer_class(kind):
    pkg, cls = KINDS[kind][0], KINDS[kind][1]
    return getattr(_import(pkg), cls, None) or _find_attr(pkg, cls)


def _find_attr(pkg, name):
    import sys
    for mname, m in list(sys.modules.items()):
        if mname.startswith(pkg) and hasattr(m, name):
            return getattr(m, name)
    raise boot.HarnessError('cannot find %s in %s' % (name, pkg))


def helper(kind):
    pkg, name = KINDS[kind][0], KINDS[kind][3]
    return getattr(_import(pkg), name, None) or _find_attr(pkg, name)


def options_value(kind, opt):
    if kind == 'DateTime':
        from recognizers_date_time.date_time.utilities import DateTimeOptions
        return DateTimeOptions(opt)
    cls = recognizer_class(kind)
    import inspect
    default = inspect.signature(cls.__init__).parameters['options'].default
    return type(default)(opt)


def parse_reference(s):
    if s is None:
        return None
    return boot.RealDateTime.strptime(s[0:19], '%Y-%m-%dT%H:%M:%S')


def call_helper(kind, query, culture, opt=0, reference=None, fallback=True):
    """Public `recognize_*` path: new Recognizer per call, process-wide cache."""
    f = helper(kind)
    o = options_value(kind, opt)
    if KINDS[kind][5]:
        return f(query, culture, o, reference, fallback)
    return f(query, culture, o, fallback)


def get_model(kind, culture, opt=0, fallback=True, target_culture=None, lazy=True, use_target=False):
    cls = recognizer_class(kind)
    rec = cls(target_culture if use_target else culture, options_value(kind, opt), lazy)
    return getattr(rec, KINDS[kind][4])(None if use_target else culture, fallback)


def fresh_model(kind, culture, opt=0):
    """A model built directly by the registered constructor, bypassing the process-wide cache."""
    cls = recognizer_class(kind)
    rec = cls.__new__(cls)
    from recognizers_text.model import ModelFactory, ModelCtorKey
    rec.target_culture = culture
    rec.options = options_value(kind, opt)
    rec.model_factory = ModelFactory()
    rec.initialize_configuration()
    ctor = rec.model_factory.model_factories.get(ModelCtorKey(model_type=KINDS[kind][2], culture=culture))
    if ctor is None:
        return None
    return ctor(rec.options)


def registered_pairs(kind):
    cls = recognizer_class(kind)
    rec = cls.__new__(cls)
    from recognizers_text.model import ModelFactory
    rec.target_culture = None
    rec.options = options_value(kind, 0)
    rec.model_factory = ModelFactory()
    rec.initialize_configuration()
    return sorted((k.model_type, k.culture) for k in rec.model_factory.model_factories)


def model_parse(model, kind, query, reference=None):
    if KINDS[kind][5]:
        return model.parse(query, reference)
    return model.parse(query)


def clear_cache():
    from recognizers_text.model import ModelFactory
    ModelFactory._ModelFactory__cache.clear()


def cache_dict():
    from recognizers_text.model import ModelFactory
    return ModelFactory._ModelFactory__cache


# ---------------------------------------------------------------------------------------------- canonical form

def _canon_value(v):
    if isinstance(v, dict):
        return {str(k): _canon_value(v[k]) for k in sorted(v, key=str)}
    if isinstance(v, (list, tuple)):
        return [_canon_value(x) for x in v]
    if isinstance(v, (str, int, float, bool)) or v is None:
        return v
    return repr(v)


def canon(results):
    """Ordered list of (text, start, end, type_name, resolution) with dict keys sorted, list order kept."""
    out = []
    for r in results:
        out.append([getattr(r, 'text', None), getattr(r, 'start', None), getattr(r, 'end', None),
                    getattr(r, 'type_name', None), _canon_value(getattr(r, 'resolution', None))])
    return out


def digest(obj):
    return hashlib.blake2b(json.dumps(obj, sort_keys=True, ensure_ascii=False, default=repr).encode('utf-8'),
                           digest_size=12).hexdigest()


# ---------------------------------------------------------------------------------------------- spec corpus

def load_model_specs(recognizers=('Number', 'NumberWithUnit', 'DateTime', 'Sequence', 'Choice')):
    """All Python-supported model-level Specs inputs as tuples dicts, in a deterministic order."""
    root = os.path.join(boot.REPO_ROOT, 'Specs')
    out = []
    for rec in recognizers:
        for path in sorted(glob.glob(os.path.join(root, rec, '*', '*.json'))):
            lang = os.path.basename(os.path.dirname(path))
            culture = CULTURE_OF_LANGUAGE.get(lang)
            if culture is None:
                continue
            m = _ENTITY.search(os.path.splitext(os.path.basename(path))[0])
            if not m or m.group(2) != 'Model':
                continue
            kind, suffix = m.group(1), m.group(3)
            if kind not in KINDS:
                continue
            if kind == 'DateTime':
                opt = DT_OPTION_OF_SUFFIX.get(suffix, 0)
            else:
                if suffix:
                    continue
                opt = 0
            try:
                specs = json.load(open(path, encoding='utf-8-sig'))
            except Exception:
                continue
            for i, sp in enumerate(specs):
                if 'python' in (sp.get('NotSupportedByDesign') or ''):
                    continue
                if 'python' in (sp.get('NotSupported') or ''):
                    continue
                ctx = sp.get('Context') or {}
                ref = ctx.get('ReferenceDateTime') if isinstance(ctx, dict) else None
                out.append({'id': '%s/%s/%s#%d' % (rec, lang, os.path.basename(path)[:-5], i),
                            'kind': kind, 'culture': culture, 'opt': opt, 'query': sp['Input'],
                            'ref': ref[0:19] if isinstance(ref, str) else None})
    return out


def tuple_key(t):
    return '%s|%s|%d|%s|%s' % (t['kind'], t['culture'], t['opt'], t['ref'], t['query'])
