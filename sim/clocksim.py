"""clocksim — a long-lived process living through simulated years (C06, C07, C08, C09, C11).

A run is one timeline: a list of concrete events (pure function of the run seed) executed against warm models in a
worker process whose only wall clock is sim.boot.CLOCK. Execution consumes concrete events only, so a replay file is
just an event list.
"""
import calendar
import json
import os
from datetime import datetime, timedelta

from . import boot, families, lib
from .decider import Decider, derive_seed
from oracles import judge as J
from oracles import shapes, known

T_MIN = datetime(1950, 1, 1)
T_MAX = datetime(2090, 12, 31, 23, 59, 59)
CLOCKSIM_PROPS = ('C06', 'C07', 'C08', 'C09', 'C11')


def iso(t):
    return t.isoformat(timespec='microseconds')


def parse_iso(s):
    return datetime.fromisoformat(s)


def clamp(t):
    return min(max(t, T_MIN), T_MAX)


# ------------------------------------------------------------------------------------------------ boundaries

def next_boundaries(t):
    """Calendar boundaries (midnights) after t that uniformly random instants almost never land on."""
    d = t.date()
    out = {}
    nm = datetime(d.year, d.month, d.day) + timedelta(days=1)
    out['midnight'] = nm
    y, m = (d.year + (d.month == 12), d.month % 12 + 1)
    out['month-start'] = datetime(y, m, 1)
    out['year-start'] = datetime(d.year + 1, 1, 1)
    ly = d.year
    while True:
        if calendar.isleap(ly) and datetime(ly, 2, 29) > t:
            break
        ly += 1
    out['leap-day'] = datetime(ly, 2, 29)
    out['leap-day-end'] = datetime(ly, 3, 1)
    monday = datetime(d.year, d.month, d.day) + timedelta(days=7 - d.weekday())
    out['week-start'] = monday
    # the Monday in Dec 29 .. Jan 4 starts ISO week 1: the week-year roll-over
    dec29 = datetime(d.year, 12, 29)
    edge = dec29 + timedelta(days=(7 - dec29.weekday()) % 7)
    if edge <= t:
        dec29 = datetime(d.year + 1, 12, 29)
        edge = dec29 + timedelta(days=(7 - dec29.weekday()) % 7)
    out['iso-year-edge'] = edge
    for day in (29, 30, 31):
        yy, mm = d.year, d.month
        for _ in range(14):
            if day <= calendar.monthrange(yy, mm)[1] and datetime(yy, mm, day) > t:
                out['day-%d' % day] = datetime(yy, mm, day)
                break
            yy, mm = (yy + (mm == 12), mm % 12 + 1)
    return out


def boundary_class(t):
    """Primary boundary tag of an instant (for coverage signatures)."""
    d = t.date()
    sod = t.hour * 3600 + t.minute * 60 + t.second
    near_mid = sod <= 1 or sod >= 86398
    last = calendar.monthrange(d.year, d.month)[1]
    tags = []
    if d.month == 2 and d.day == 29:
        tags.append('leap-day')
    if (d.month, d.day) in ((12, 31), (1, 1)):
        tags.append('year-edge')
    if d.isocalendar()[0] != d.year:
        tags.append('iso-year-differs')
    elif d.isocalendar()[1] == 53:
        tags.append('iso-w53')
    if d.day == last or d.day == 1:
        tags.append('month-edge')
    elif d.day >= 29:
        tags.append('day-29-31')
    tag = tags[0] if tags else 'plain'
    return tag + ('+midnight' if near_mid else '')


# ------------------------------------------------------------------------------------------------ generation

TWIN_FAMILIES = ('special_day', 'ago_later', 'rel_weekday', 'rel_week', 'rel_month', 'rel_year', 'now', 'month_day', 'weekday',
                 'abs_date', 'time', 'date_at_time')


def draw_request(dec, prop, t, ctx):
    if prop == 'C08':
        return families.draw_c08(dec)
    if prop == 'C09':
        return families.draw_c09(dec, near=t.date())
    if prop == 'C06':
        return families.draw_c06(dec, near=t.date())
    if prop == 'C07':
        return families.draw_c07(dec)
    if prop == 'C11':
        k = dec.choice('c11-src', 10)
        if k < 5:
            specs = ctx['specs']
            s = specs[dec.choice('spec', len(specs))]
            return {'prop': 'C11', 'family': 'spec', 'params': {'id': s['id']}, 'culture': s['culture'],
                    'text': s['query'], 'lit': [0, len(s['query']) - 1], 'deciding': True}
        if k == 5:
            return families.draw_c10ish(dec)
        if k == 6:
            return families.draw_nonexistent(dec)
        sub = [families.draw_c06, families.draw_c07, families.draw_c08, None][dec.choice('c11-fam', 4)]
        r = families.draw_c09(dec, near=t.date()) if sub is None else sub(dec)
        r['via'] = r['prop']
        r['prop'] = 'C11'
        return r
    raise KeyError(prop)


def gen_timeline(prop, run_seed, tier, ctx):
    """-> list of concrete events. Pure function of (prop, run_seed, tier, static data)."""
    dec = Decider(run_seed)
    span = int((T_MAX - T_MIN).total_seconds())
    t = T_MIN + timedelta(seconds=dec.choice('start', span), microseconds=1 + dec.choice('us', 999999))
    n_events = 12 + dec.choice('n-events', 28 if tier == 'quick' else 60)
    # swarm: per-run fault mix
    p_implicit = [0.0, 0.3, 0.5, 0.8][dec.choice('p-implicit', 4)]
    enabled = {k: dec.choice('en-' + k, 3) > 0 for k in ('step', 'torn', 'backstep', 'aligned', 'stale', 'magnet')}
    twins = dec.choice('en-twins', 3) > 0
    events = []
    for k in range(n_events):
        # ---- advance the clock
        g = dec.choice('gap-kind', 10)
        if enabled['magnet'] and g < 4:
            b = next_boundaries(t)
            name = sorted(b)[dec.choice('magnet', len(b))]
            off = [-1, 0, 1][dec.choice('magnet-off', 3)]
            t = b[name] + timedelta(seconds=off, microseconds=(dec.choice('us', 999999) + 1) if off else 0)
            adv = 'magnet:' + name
        elif enabled['stale'] and g == 4:
            t = t + timedelta(days=dec.choice('stale-days', 40 * 365) + 30)
            adv = 'stale'
        elif g in (5, 6):
            t = t + timedelta(seconds=dec.expo('gap-s', 30.0))
            adv = 'seconds'
        elif g in (7, 8):
            t = t + timedelta(seconds=dec.expo('gap-h', 6 * 3600.0))
            adv = 'hours'
        else:
            t = t + timedelta(seconds=dec.expo('gap-d', 20 * 86400.0))
            adv = 'days'
        fault = None
        if enabled['step'] and dec.chance('step', 0.08):
            mag = [1, 3600, 86400, 30 * 86400, 366 * 86400, 20 * 366 * 86400, 60 * 366 * 86400][dec.choice('step-mag', 7)]
            sgn = 1 if dec.choice('step-sign', 2) else -1
            t = t + timedelta(seconds=sgn * (1 + dec.choice('step-s', mag)))
            fault = 'step'
        if t < T_MIN or t > T_MAX:
            t = T_MIN + timedelta(seconds=dec.choice('wrap', span), microseconds=7)
        if enabled['aligned'] and dec.chance('aligned', 0.06):
            t = datetime(t.year, t.month, t.day)
            fault = 'aligned'
        req = draw_request(dec, prop, t, ctx)
        mode = 'implicit' if dec.chance('mode', p_implicit) else 'explicit'
        if twins and req['culture'] == 'en-us' and req['family'] in TWIN_FAMILIES and dec.chance('ctx-twin', 0.25):
            creq = families.context_twin(dec, req)
            events.append({'k': len(events), 't': iso(t), 'adv': 'none', 'mode': 'explicit', 'req': creq, 'fault': None,
                           'clock': iso(clamp(t + timedelta(days=400, microseconds=5))), 'dup': False})
        ev = {'k': len(events), 't': iso(t), 'adv': adv, 'mode': mode, 'req': req, 'fault': fault}
        if mode == 'implicit':
            f = dec.choice('read-fault', 10)
            if enabled['torn'] and f < 2:
                # reads straddle a boundary: first read just before it, delta pushes later reads across
                b = next_boundaries(t)
                name = sorted(b)[dec.choice('torn-b', len(b))]
                delta = [0.4, 1.0, 30.0, 3600.0][dec.choice('torn-delta', 4)]
                first = b[name] - timedelta(seconds=delta * (0.5 + dec.choice('torn-k', 3)))
                if T_MIN < first < T_MAX - timedelta(days=2):
                    ev['t'] = iso(first)
                    ev['script'] = [iso(first + timedelta(seconds=delta * j)) for j in range(48)]
                    ev['fault'] = 'torn'
                    t = first
            elif enabled['backstep'] and f == 2:
                delta = [0.7, 45.0, 7200.0, 90000.0][dec.choice('back-delta', 4)]
                zig = [0, 1, -1, 2, -2, 1, 0, -1]
                ev['script'] = [iso(clamp(t + timedelta(seconds=delta * zig[j % 8]))) for j in range(48)]
                ev['fault'] = 'backstep'
            ev['xcheck'] = 'script' not in ev and dec.chance('xcheck', 0.3)
        else:
            disp = [3, 86400 * 3, 86400 * 400, 86400 * 365 * 30][dec.choice('disp-mag', 4)]
            sgn = 1 if dec.choice('disp-sign', 2) else -1
            ev['clock'] = iso(clamp(t + timedelta(seconds=sgn * (1 + dec.choice('disp', disp)), microseconds=13)))
            ev['dup'] = dec.chance('dup', 0.25)
            if ev['dup']:
                ev['clock2'] = iso(clamp(t - timedelta(seconds=sgn * (1 + dec.choice('disp2', disp)), microseconds=17)))
        events.append(ev)
    return events


# ------------------------------------------------------------------------------------------------ execution

def _parse(req, reference):
    from recognizers_date_time import recognize_datetime
    if reference is None:
        # implicit mode: the argument is OMITTED, not passed as None (a default evaluated at import differs)
        return lib.canon(recognize_datetime(req['text'], req['culture']))
    return lib.canon(recognize_datetime(req['text'], req['culture'], reference=reference))


def judge_at(prop, req, ents, instants):
    """-> failure dict or None. `instants`: candidate reference instants (one for frozen/explicit calls)."""
    if req.get('context') and prop != 'C11':
        return None
    if prop == 'C11':
        fails = []
        for e in ents:
            for f in shapes.check_entity(e):
                f = dict(f)
                f['entity'] = e
                fails.append(f)
        return fails[0] if fails else None
    last = None
    seen = set()
    for R in instants:
        key = R.replace(microsecond=0)
        if key in seen:
            continue
        seen.add(key)
        last = J.judge(req, ents, R)
        if last is None:
            return None
    return last


def execute_event(prop, ev, kf, stats):
    """Run one event against the warm models. -> outcome dict (always), with 'violation' when the property fails."""
    req = ev['req']
    t = parse_iso(ev['t'])
    clock = boot.CLOCK
    out = {'k': ev.get('k'), 'violation': None, 'known': None}
    if ev['mode'] == 'explicit':
        clock.script = None
        clock.set(parse_iso(ev['clock']))
        r0 = clock.reads
        ents = _parse(req, t)
        out['reads'] = clock.reads - r0
        instants = [t]
        fail = judge_at(prop, req, ents, instants)
        if fail is None and ev.get('dup'):
            clock.set(parse_iso(ev['clock2']))
            ents2 = _parse(req, t)
            if ents2 != ents:
                fail = {'kind': 'clock-leak', 'detail': {'clock': ev['clock'], 'clock2': ev['clock2'], 'a': ents, 'b': ents2}}
            stats['dup-checks'] = stats.get('dup-checks', 0) + 1
    else:
        log = []
        clock.read_log = log
        clock.set(t)
        clock.script = [parse_iso(s) for s in ev['script']] if ev.get('script') else None
        try:
            ents = _parse(req, None)
        finally:
            clock.read_log = None
            clock.script = None
        read = [parse_iso(x[2]) for x in log]
        out['reads'] = len(read)
        instants = read or [t]
        if ev.get('script'):
            days = {x.date() for x in read}
            if len(days) > 1:
                stats['torn-calls-straddling-a-day'] = stats.get('torn-calls-straddling-a-day', 0) + 1
        fail = judge_at(prop, req, ents, instants)
        if fail is None and ev.get('xcheck'):
            clock.set(clamp(t + timedelta(days=4000, microseconds=3)))
            ents2 = _parse(req, t)
            if ents2 != ents:
                fail = {'kind': 'implicit-differs-from-explicit', 'detail': {'implicit': ents, 'explicit': ents2}}
            stats['xchecks'] = stats.get('xchecks', 0) + 1
    out['digest'] = lib.digest(ents)
    out['n_entities'] = len(ents)
    if any(e[4] is None for e in ents):
        stats['unresolved-entities'] = stats.get('unresolved-entities', 0) + 1
    if req.get('context'):
        stats['context-twins'] = stats.get('context-twins', 0) + 1
    if fail is not None:
        if not req.get('deciding', True) and not (prop == 'C11' and req.get('context')):
            out['informational'] = fail['kind']
        else:
            k = known.match(kf, prop, req, instants, fail)
            if k is not None:
                out['known'] = k
            else:
                out['violation'] = {'prop': prop, 'class': known.failure_class(prop, req, fail), 'failure': fail,
                                    'instants': [iso(x) for x in instants[:6]], 'result': ents}
    return out


def signature(prop, ev):
    req = ev['req']
    fam = req['family'] if req['family'] != 'spec' else req['params']['id']
    if req['prop'] == 'C06' or req.get('via') == 'C06':
        fam = 'abs:' + req['params'].get('layout', '')
    return '%s|%s|%s|%s|%s' % (fam, req['culture'], ev['mode'], boundary_class(parse_iso(ev['t'])), ev.get('fault') or '-')


def nontrivial(prop, ev):
    """The oracle depended on the instant, or a clock fault fired."""
    if ev.get('fault'):
        return True
    if prop in ('C08', 'C09'):
        return True
    if prop == 'C07':
        return ev['req']['family'] == 'date_at_time' and ev['req']['params']['date']['kind'] == 'rel'
    if prop == 'C06':
        return False
    return ev['req']['family'] in ('spec', 'special_day', 'ago_later', 'rel_weekday', 'rel_week', 'rel_month',
                                   'rel_year', 'now', 'month_day', 'weekday', 'date_at_time', 'c10ish')


def load_ctx(prop):
    ctx = {}
    if prop == 'C11':
        ctx['specs'] = [s for s in lib.load_model_specs(('DateTime',)) if s['opt'] == 0]
    return ctx


def load_ctx_static(prop):
    """Same as load_ctx but usable from the orchestrator process (reads the Specs corpus only)."""
    return load_ctx(prop)


def warm(prop):
    """Build the warm models this check's workload needs (counted as construction, not as runs)."""
    cultures = ['en-us']
    if prop in ('C06', 'C11'):
        cultures = sorted(families.data('layouts.json')['layouts'])
    for c in cultures:
        _parse({'text': 'warm up tomorrow', 'culture': c}, datetime(2020, 1, 1))
    return cultures


def run_batch(job):
    """Worker entry: execute runs [first, first+count) of a check. Returns a JSON-able report."""
    prop, seed, tier = job['prop'], job['seed'], job['tier']
    kf = known.load()
    ctx = load_ctx(prop)
    cultures = warm(prop)
    rep = {'prop': prop, 'batch': job['batch'], 'runs': 0, 'events': 0, 'signatures': {}, 'faults': {}, 'stats': {},
           'violations': [], 'known': {}, 'informational': {}, 'sim_seconds': 0.0, 'span_hist': {}, 'digests': [],
           'samples': [], 'boundary': {}, 'earliest': None, 'latest': None, 'cultures': cultures, 'reads': 0}
    for idx in range(job['first'], job['first'] + job['count']):
        run_seed = derive_seed(seed, prop, idx)
        events = gen_timeline(prop, run_seed, tier, ctx)
        t0 = t1 = None
        run_digest = []
        for ev in events:
            t = parse_iso(ev['t'])
            t0 = t if t0 is None or t < t0 else t0
            t1 = t if t1 is None or t > t1 else t1
            out = execute_event(prop, ev, kf, rep['stats'])
            rep['events'] += 1
            rep['reads'] += out.get('reads', 0)
            run_digest.append(out['digest'])
            sig = signature(prop, ev)
            nt = nontrivial(prop, ev)
            cur = rep['signatures'].get(sig)
            rep['signatures'][sig] = bool(cur) or nt
            if ev.get('fault'):
                rep['faults'][ev['fault']] = rep['faults'].get(ev['fault'], 0) + 1
            if ev['adv'] == 'stale':
                rep['faults']['stale'] = rep['faults'].get('stale', 0) + 1
            bc = boundary_class(t)
            rep['boundary'][bc] = rep['boundary'].get(bc, 0) + 1
            if out['known']:
                rep['known'][out['known']] = rep['known'].get(out['known'], 0) + 1
            if out.get('informational'):
                key = '%s|%s|%s' % (ev['req']['culture'], ev['req']['family'], out['informational'])
                rep['informational'][key] = rep['informational'].get(key, 0) + 1
            if out['violation']:
                v = out['violation']
                v.update({'run': idx, 'event': ev['k'], 'batch': job['batch'], 'ev': ev})
                rep['violations'].append(v)
                if len(rep['violations']) >= 5:
                    break
        rep['runs'] += 1
        span = (t1 - t0).total_seconds() if t0 else 0.0
        rep['sim_seconds'] += span
        b = 'lt-1d' if span < 86400 else 'lt-1y' if span < 366 * 86400 else 'lt-10y' if span < 3660 * 86400 else 'ge-10y'
        rep['span_hist'][b] = rep['span_hist'].get(b, 0) + 1
        e0, e1 = iso(t0), iso(t1)
        rep['earliest'] = e0 if rep['earliest'] is None or e0 < rep['earliest'] else rep['earliest']
        rep['latest'] = e1 if rep['latest'] is None or e1 > rep['latest'] else rep['latest']
        rep['digests'].append([idx, lib.digest(run_digest)])
        if len(rep['samples']) < 1:
            rep['samples'].append({'run': idx, 'run_seed': run_seed, 'events': events[:4]})
        if len(rep['violations']) >= 5:
            break
    return rep


def replay_events(prop, events):
    """Execute a concrete event list in this process. -> list of outcomes."""
    kf = known.load()
    stats = {}
    return [execute_event(prop, ev, kf, stats) for ev in events]
