"""callsim — callers, the process-wide model cache and shared model graphs under a seeded scheduler (C02, C17).

Real code: all five recogniser packages, ModelFactory, Recognizer, Culture. Simulated: which caller thread runs next
(baton scheduler), thread placement, cache cold/warm/restart, the wall clock, aborted callers, allocation failures,
stalls. A run's plan (clients, ops, faults, scheduler parameters) is a pure function of the run seed; execution records
the switch list so the run can be replayed without the PRNG.
"""
import gc
import json
import os
import sys
import threading

from . import boot, lib, baton, barrier
from .decider import Decider, derive_seed
from oracles import routing, known

DEFAULT_DT_REF = '2016-11-07T00:00:00'
DT_OPTS = [0, 1, 2, 3, 4]


# ------------------------------------------------------------------------------------------------ tuple pool

def norm_tuple(t):
    t = dict(t)
    if t['kind'] == 'DateTime' and not t.get('ref'):
        t['ref'] = DEFAULT_DT_REF
    if t['kind'] != 'DateTime':
        t['ref'] = None
    t['key'] = lib.tuple_key(t)
    return t


def build_pool(seed, tier, registered):
    """Static part (orchestrator side): every Python-supported model-level Specs input + twins + sentinels."""
    specs = [norm_tuple(s) for s in lib.load_model_specs()]
    by_key = {}
    for s in specs:
        by_key.setdefault(s['key'], s)
    specs = list(by_key.values())
    with open(os.path.join(boot.VERIF_DIR, 'data', 'sentinels.json'), encoding='utf-8') as f:
        sent_keys = set(json.load(f)['keys'])
    dec = Decider(derive_seed(seed, 'pool'))
    if tier == 'quick':
        sentinels = [s for s in specs if s['key'] in sent_keys]
        rest = [s for s in specs if s['key'] not in sent_keys]
        chosen = dec.sample('pool', rest, 520) + sentinels
    else:
        chosen = specs
    # twins: same query under another reference / culture / options — the shape that exposes a memo keyed too narrowly
    out = {t['key']: t for t in chosen}
    twins = []
    NUMBERISH = ['Number', 'Ordinal', 'Percent', 'Age', 'Currency', 'Dimension', 'Temperature']
    reg_set = {kind: {c for (mt, c) in registered[kind]} for kind in registered}
    work = []
    for t in list(chosen):
        if t['kind'] in NUMBERISH:
            work.append((t, 3))          # every number-ish query is also asked of another model of the same culture
        if any(c != t['culture'] and c.split('-')[0] == t['culture'].split('-')[0] for (mt, c) in registered.get(t['kind'], ())):
            work.append((t, 2))          # ... and every query of a language with two cultures, of a sibling culture
        if dec.choice('twin?', 2) == 0:
            work.append((t, dec.choice('twin-kind', 4)))
    for t, k in work:
        tw = dict(t)
        tw.pop('twins', None)
        if t['kind'] == 'DateTime' and k == 0:
            from datetime import timedelta
            r = lib.parse_reference(t['ref']) + timedelta(days=[1, 7, 31, 366, 4000][dec.choice('dref', 5)], hours=dec.choice('hr', 24))
            tw['ref'] = r.strftime('%Y-%m-%dT%H:%M:%S')
        elif t['kind'] == 'DateTime' and k == 1:
            tw['opt'] = [o for o in (0, 1, 2, 3, 4) if o != t['opt']][dec.choice('dopt', 4)]
        elif k == 3 and (t['kind'] in NUMBERISH or t['kind'] == 'DateTime'):
            # same query, same culture, ANOTHER MODEL: extractors of different models share sub-extractors
            kinds = [x for x in NUMBERISH if x != t['kind'] and t['culture'] in reg_set.get(x, ())]
            if not kinds:
                continue
            tw['kind'] = kinds[dec.choice('dkind', len(kinds))]
            tw['opt'] = 0
        else:
            cults = [c for (mt, c) in registered[t['kind']] if c != t['culture']]
            if not cults:
                continue
            # sibling cultures of the same language share configuration classes (es-es / es-mx): prefer them half the time
            sib = [c for c in cults if c.split('-')[0] == t['culture'].split('-')[0]]
            if sib and dec.choice('sibling', 2):
                cults = sib
            tw['culture'] = cults[dec.choice('dcult', len(cults))]
        tw['id'] = 'twin:' + t['id']
        tw = norm_tuple(tw)
        if tw['key'] not in out:
            out[tw['key']] = tw
            twins.append(tw['key'])
        if tw['key'] != t['key']:
            t.setdefault('twins', []).append(tw['key'])
            out[tw['key']].setdefault('twins', []).append(t['key'])
    # generated expressions (the clocksim families): input shapes the Specs corpus has few of — explicit-year ranges,
    # reference-anchored ranges, times attached to dates, non-existent dates — each with its own drawn reference
    from . import families
    from datetime import datetime as _dt, timedelta as _td
    gdec = Decider(derive_seed(seed, 'pool-generated'))
    n_gen = 200 if tier == 'quick' else 2000
    gens = [families.draw_c10ish, families.draw_c10ish, families.draw_c10ish, families.draw_c06, families.draw_c07,
            families.draw_c08, families.draw_c09, families.draw_nonexistent]
    for i in range(n_gen):
        req = gens[gdec.choice('gen', len(gens))](gdec)
        if gdec.choice('gen-twin', 4) == 0:
            req = families.context_twin(gdec, req)
        ref = _dt(1950, 1, 1) + _td(seconds=gdec.choice('gen-ref', 141 * 365 * 86400))
        t = norm_tuple({'id': 'gen:%d' % i, 'kind': 'DateTime', 'culture': req['culture'], 'opt': 0, 'query': req['text'],
                        'ref': ref.strftime('%Y-%m-%dT%H:%M:%S')})
        out.setdefault(t['key'], t)
    pool = sorted(out.values(), key=lambda x: x['key'])
    return pool


def live_registered():
    """Worker side: what the tree under test registers right now."""
    return {kind: [p for p in lib.registered_pairs(kind) if p[0] == lib.KINDS[kind][2]] for kind in lib.KINDS}


def supported_codes():
    from recognizers_text.culture import Culture
    return list(Culture._get_supported_culture_codes())


def group_of(t):
    return (t['kind'], t['culture'], t['opt'])


# ------------------------------------------------------------------------------------------------ calls

def do_call(t, via, rec=None):
    ref = lib.parse_reference(t['ref']) if t.get('ref') else None
    if via == 'helper':
        return lib.canon(lib.call_helper(t['kind'], t['query'], t['culture'], t['opt'], ref))
    if rec is not None:
        m = getattr(rec, lib.KINDS[t['kind']][4])(t['culture'], True)
    else:
        m = lib.get_model(t['kind'], t['culture'], t['opt'])
    return lib.canon(lib.model_parse(m, t['kind'], t['query'], ref))


def safe_call(fn, *a):
    """-> canonical result, or 'EXC:<Type>' for an ordinary exception raised by the library (compared like a value)."""
    try:
        return fn(*a)
    except baton.Abort:
        raise
    except MemoryError:
        raise
    except Exception as e:   # noqa
        return 'EXC:' + type(e).__name__


# ------------------------------------------------------------------------------------------------ golden

def golden_job(job):
    """Pristine process, main thread, sequential, frozen clock. pass A: public helper path in the given order (shared
    cache, first use then warm). pass B: one fresh model per group straight from the registered constructor (cache
    bypassed), reversed order, plus a budgeted subset re-evaluated on a brand-new model each (cold)."""
    boot.CLOCK.set(boot.RealDateTime(2001, 2, 3, 4, 5, 6, 7))
    tuples = job['tuples']
    out = {}
    cold = {}
    if job['pass'] == 'A':
        for t in tuples:
            out[t['key']] = safe_call(do_call, t, 'helper')
    else:
        models = {}
        resolved = {}
        reg = live_registered()
        sup = supported_codes()
        for t in reversed(tuples):
            g = group_of(t)
            if g not in models:
                kind, model_type = t['kind'], lib.KINDS[t['kind']][2]
                exp = routing.expected(model_type, t['culture'], True, sup, set(reg[kind]))
                # sequence recogniser routes zh-*/ja-* to Chinese for phone/ip/url (see KF-C17-ja-sequence): follow the
                # public path for the resolution, the point of pass B is the *fresh, uncached* model
                m = None
                if exp[0] == 'model':
                    c = exp[1]
                    if t['kind'] in ('PhoneNumber', 'IpAddress', 'URL') and t['culture'].lower().startswith(('zh-', 'ja-')):
                        c = 'zh-cn'
                    m = lib.fresh_model(t['kind'], c, t['opt'])
                    resolved[g] = c
                models[g] = m
            m = models[g]
            ref = lib.parse_reference(t['ref']) if t.get('ref') else None
            if m is None:
                out[t['key']] = safe_call(do_call, t, 'helper')
            else:
                out[t['key']] = safe_call(lambda: lib.canon(lib.model_parse(m, t['kind'], t['query'], ref)))
        budget = job.get('cold_budget', 0)
        for t in tuples:
            if budget <= 0:
                break
            g = group_of(t)
            if g in resolved and t['kind'] != 'DateTime':
                m = lib.fresh_model(t['kind'], resolved[g], t['opt'])
                ref = None
                cold[t['key']] = safe_call(lambda: lib.canon(lib.model_parse(m, t['kind'], t['query'], ref)))
                budget -= 1
    return {'golden': out, 'cold': cold, 'clock_reads': boot.CLOCK.reads}


def probes_job(job):
    """C17 golden: behaviour of a fresh model of every registered (kind, culture, option) on the probe set."""
    boot.CLOCK.set(boot.RealDateTime(2001, 2, 3, 4, 5, 6, 7))
    out = {}
    for kind, culture, opt in job['groups']:
        m = lib.fresh_model(kind, culture, opt)
        res = {}
        for p in job['probes'][kind]:
            ref = lib.parse_reference(p['ref']) if p.get('ref') else None
            res[p['key']] = safe_call(lambda: lib.canon(lib.model_parse(m, kind, p['query'], ref)))
        out['%s|%s|%d' % (kind, culture, opt)] = res
    return {'probes': out, 'registered': {k: v for k, v in live_registered().items()}, 'supported': supported_codes()}


# ------------------------------------------------------------------------------------------------ plan generation

CULTURE_STRINGS = {
    'variant-single': ['fr-ca', 'fr-be', 'de-at', 'de-ch', 'pt-pt', 'zh-tw', 'zh-hk', 'nl-be', 'it-ch', 'ja-xx', 'ko-kp', 'tr-cy'],
    'variant-multi': ['es-ar', 'es-co', 'en-gb', 'en-au', 'en-in'],
    'unknown': ['xx-yy', 'ru-ru', 'ar-sa', 'hi-in', 'sv-se', 'pl-pl', 'qq-qq'],
}


def rand_case(dec, s):
    k = dec.choice('case', 4)
    if k == 0:
        return s.upper()
    if k == 1:
        return s[:2].lower() + s[2:].upper()
    if k == 2:
        return ''.join(ch.upper() if dec.choice('cc', 2) else ch.lower() for ch in s)
    return s


def draw_culture_string(dec, supported):
    k = dec.choice('cs-kind', 10)
    if k < 4:
        return rand_case(dec, supported[dec.choice('sup', len(supported))]), 'supported'
    if k < 6:
        return rand_case(dec, dec.pick('vs', CULTURE_STRINGS['variant-single'])), 'variant-single'
    if k == 6:
        return rand_case(dec, dec.pick('vm', CULTURE_STRINGS['variant-multi'])), 'variant-multi'
    if k == 7:
        return dec.pick('unk', CULTURE_STRINGS['unknown']), 'unknown'
    if k == 8:
        return '', 'empty'
    return None, 'none'


QUICK_STEP_CAP = 1_500_000


def gen_plan(prop, run_seed, tier, ctx):
    """gen_plan_body + the per-run step budget (recorded in the plan, so a replay stops tracing at the same step)."""
    plan = gen_plan_body(prop, run_seed, tier, ctx)
    plan['step_cap'] = min(ctx.get('step_cap', 5_000_000), QUICK_STEP_CAP) if tier == 'quick' else ctx.get('step_cap', 5_000_000)
    return plan


def gen_plan_body(prop, run_seed, tier, ctx):
    """-> plan dict: clients with concrete ops, scheduler parameters, fault plan. Pure function of its arguments."""
    dec = Decider(run_seed)
    pool, groups = ctx['pool'], ctx['groups']
    est = ctx['step_estimate']
    # 6 and 10 callers: resources sized for a fixed number of threads (pools, per-thread slots) only wrap with many
    n_clients = [1, 2, 2, 2, 3, 3, 4, 4, 6, 10][dec.choice('n-clients', 10)]
    fault_free = dec.chance('fault-free', 0.4)
    enabled = {k: (not fault_free) and dec.choice('en-' + k, 3) > 0 for k in ('abort', 'alloc-fail-call', 'alloc-fail-ctor', 'stall')}
    p_fault = 0.0 if fault_free else [0.05, 0.15, 0.4][dec.choice('p-fault', 3)]
    if not fault_free and dec.chance('fault-sweep', 0.3):
        return gen_sweep_plan(dec, run_seed, ctx)
    if dec.chance('burst', 0.03):
        return gen_burst_plan(dec, run_seed, ctx)
    # focus: a few model groups so that clients share models
    gkeys = sorted(groups)
    heavy = dec.chance('heavy', ctx['p_heavy'])
    cand = [g for g in gkeys if (g[0] == 'DateTime') == heavy] or gkeys
    if heavy and ctx.get('dt_focus'):
        cand = [g for g in cand if (g[1], g[2]) in ctx['dt_focus']] or cand
    focus = dec.sample('focus', cand, 1 + dec.choice('n-focus', 3))
    # currency calls cost 3-5e5 steps each (trie walk): keep them, but rarer
    focus = [g for g in focus if g[0] != 'Currency' or dec.choice('keep-currency', 4) == 0] or [cand[dec.choice('focus2', len(cand))]]
    if not heavy and dec.choice('mix-dt', 6) == 0:
        dt = [g for g in gkeys if g[0] == 'DateTime' and (not ctx.get('dt_focus') or (g[1], g[2]) in ctx['dt_focus'])]
        if dt:
            focus.append(dt[dec.choice('dt-g', len(dt))])
    tset = []
    for g in focus:
        ts = groups[g]
        for _ in range(1 + dec.choice('n-t', 3)):
            t = ts[dec.choice('t', len(ts))]
            tset.append(t)
            for tw in pool[t].get('twins', []):
                twt = pool[tw]
                if twt['kind'] == 'DateTime' and ctx.get('dt_focus') and (twt['culture'], twt['opt']) not in ctx['dt_focus']:
                    continue        # a date-time model outside this batch's focus costs seconds to build
                if dec.choice('use-twin', 3):
                    tset.append(tw)
    has_dt = any(g[0] == 'DateTime' for g in focus)
    cold = False
    if dec.chance('cold', 0.5) and not ctx.get('no_restart'):
        cold = 'full' if (has_dt and dec.chance('cold-full', 0.04)) else 'light'
    clients = []
    for cid in range(n_clients):
        ops = []
        for _ in range(1 + dec.choice('n-ops', (6 if tier == 'quick' else 8) if n_clients <= 4 else 3)):
            r = dec.choice('op-kind', 40)
            if r == 0 and not ctx.get('no_restart'):
                ops.append({'op': 'restart', 'scope': 'light'})
                continue
            if r == 1:
                ops.append({'op': 'gc'})
                continue
            if prop == 'C17' and r < 28:
                ops.append(gen_get_op(dec, ctx, focus))
            else:
                key = tset[dec.choice('tuple', len(tset))]
                op = {'op': 'call', 'tuple': key, 'via': 'helper' if dec.choice('via', 3) else 'model'}
                ops.append(op)
            op = ops[-1]
            if dec.chance('fresh', 0.15):
                op['fresh_thread'] = True
            if dec.chance('clock-step', 0.3):
                op['clock'] = '%04d-%02d-%02dT%02d:%02d:%02d' % (1950 + dec.choice('cy', 140), 1 + dec.choice('cm', 12),
                                                             1 + dec.choice('cd', 28), dec.choice('ch', 24), dec.choice('cmi', 60), dec.choice('cs', 60))
            kinds = [k for k in ('abort', 'alloc-fail-call', 'alloc-fail-ctor', 'stall') if enabled[k]]
            if kinds and dec.chance('fault', p_fault):
                fk = kinds[dec.choice('fault-kind', len(kinds))]
                kind = pool[op['tuple']]['kind'] if op['op'] == 'call' else op['kind']
                k_hat = max(20, int(est.get(kind, 2000)))
                step = 1 + dec.choice('fault-step', k_hat if fk != 'alloc-fail-ctor' else max(20, int(est.get('ctor:' + kind, 3000))))
                op['fault'] = {'kind': fk, 'step': step}
                if op['op'] == 'call' and fk != 'stall':
                    # fault-then-verify: the next request of this caller (same thread) goes to the SAME model with another
                    # query of that group — state a failed call leaves behind shows up here first
                    g = group_of(pool[op['tuple']])
                    ts = groups.get(g) or [op['tuple']]
                    ops.append({'op': 'call', 'tuple': ts[dec.choice('verify-t', len(ts))], 'via': op['via'], 'verify': True})
        clients.append({'cid': cid, 'placement': 'main' if cid == 0 and dec.choice('main', 2) else 'pooled', 'ops': ops})
    # shared recogniser objects: one Recognizer instance used by several clients (a service keeps one per process)
    shared = []
    if dec.chance('shared-recs', 0.5):
        kinds_used = sorted({(pool[o['tuple']]['kind'], pool[o['tuple']]['opt']) if o['op'] == 'call' else (o['kind'], o['opt'])
                             for c in clients for o in c['ops'] if o['op'] in ('call', 'get')})
        for kind, opt in dec.sample('shared-kinds', kinds_used, 1 + dec.choice('n-shared', 2)):
            shared.append({'rclass': lib.KINDS[kind][1], 'kind': kind, 'opt': opt,
                           'target': ['en-us', None, 'fr-fr', 'zh-cn'][dec.choice('sh-target', 4)]})
        for c in clients:
            for o in c['ops']:
                if o['op'] == 'get' or (o['op'] == 'call' and o['via'] == 'model'):
                    kind, opt = (o['kind'], o['opt']) if o['op'] == 'get' else (pool[o['tuple']]['kind'], pool[o['tuple']]['opt'])
                    cands = [i for i, sh in enumerate(shared) if sh['rclass'] == lib.KINDS[kind][1] and sh['opt'] == opt]
                    if cands and dec.choice('use-shared', 3):
                        o['rec'] = cands[dec.choice('which-shared', len(cands))]
                        if o['op'] == 'get':
                            o['target'] = shared[o['rec']]['target']
                            o['use_target'] = o['culture'] is None
    total_est = sum(est.get(pool[o['tuple']]['kind'] if o['op'] == 'call' else o.get('kind', 'Number'), 2000)
                    for c in clients for o in c['ops'] if o['op'] in ('call', 'get'))
    sk = dec.choice('sched', 3)
    if sk == 0:
        sched = {'kind': 'pct', 'depth': 1 + dec.choice('depth', 4), 'k': max(50, int(total_est))}
    elif sk == 1:
        sched = {'kind': 'walk', 'p': [1e-4, 3e-4, 1e-3, 3e-3][dec.choice('p-switch', 4)]}
    else:
        # quantum 2-8 = lockstep: every other line is a switch — windows of a few lines between a write to shared
        # state and its use (too short for any probe to steer into)
        sched = {'kind': 'rr', 'q': [2, 8, 30, 100, 300, 1000][dec.choice('quantum', 6)]}
    dirty = None
    if not fault_free:
        dirty = {'stall': [0.0, 0.3, 0.6][dec.choice('dirty-stall-p', 3)] if enabled['stall'] or dec.choice('ds', 2) else 0.0,
                 'abort': [0.0, 0.15, 0.4][dec.choice('dirty-abort-p', 3)] if enabled['abort'] else 0.0}
    return {'clients': clients, 'sched': sched, 'cold': cold, 'shared': shared, 'dirty': dirty, 'cold_cultures': sorted({g[1] for g in focus if g[0] == 'DateTime'}), 'sched_seed': derive_seed(run_seed, 'sched'),
            'fault_free': fault_free}


def pick_probe(dec, plist):
    strong = [p for p in plist if p.get('strong')]
    if strong and dec.choice('strong-probe', 2):
        return strong[dec.choice('sp', len(strong))]['key']
    return plist[dec.choice('probe', len(plist))]['key']


def gen_burst_plan(dec, run_seed, ctx):
    """Burst: ONE caller issues hundreds of DISTINCT cheap requests and then re-asks the first ones. Bounded caches, ring
    buffers and counters only misbehave once they are full or wrap (64, 128, 256 entries); short runs never get there."""
    pool, groups = ctx['pool'], ctx['groups']
    cheap = [k for g in sorted(groups) if g[0] not in ('DateTime', 'Currency') for k in groups[g]]
    n = [64, 140, 300, 600][dec.choice('burst-n', 4)]
    keys = dec.sample('burst-keys', cheap, min(n, len(cheap)))
    via = 'helper' if dec.choice('via', 3) else 'model'
    ops = [{'op': 'call', 'tuple': k, 'via': via} for k in keys]
    ops += [{'op': 'call', 'tuple': k, 'via': via, 'verify': True} for k in keys[:12]]
    clients = [{'cid': 0, 'placement': 'main' if dec.choice('main', 2) else 'pooled', 'ops': ops}]
    return {'clients': clients, 'sched': {'kind': 'walk', 'p': 1e-4}, 'cold': False, 'shared': [], 'dirty': None,
            'cold_cultures': [], 'sched_seed': derive_seed(run_seed, 'sched'), 'fault_free': True, 'burst': True}


def gen_sweep_plan(dec, run_seed, ctx, k_points=8):
    """Fault sweep: ONE caller repeats one request with a fault (abort or allocation failure) at k stratified points of
    its measured length, each time followed by an ordinary request to the same model on the same thread. Finds state a
    failed call leaves behind wherever in the call the vulnerable window lies (a random fault step seldom lands in a
    window that is a few per cent of one request)."""
    pool, groups = ctx['pool'], ctx['groups']
    gkeys = sorted(groups)
    dt = [g for g in gkeys if g[0] == 'DateTime' and (not ctx.get('dt_focus') or (g[1], g[2]) in ctx['dt_focus'])]
    cand = dt if (dt and dec.choice('sweep-dt', 2)) else [g for g in gkeys if g[0] not in ('DateTime', 'Currency')] or gkeys
    g = cand[dec.choice('sweep-group', len(cand))]
    ts = groups[g]
    target = ts[dec.choice('sweep-target', len(ts))]
    via = 'helper' if dec.choice('via', 3) else 'model'
    ops = [{'op': 'call', 'tuple': target, 'via': via}]
    for i in range(k_points):
        kind = 'abort' if dec.choice('sweep-kind', 2) else 'alloc-fail-call'
        frac = (i + dec.uniform('sweep-u', 0.0, 1.0)) / k_points
        ops.append({'op': 'call', 'tuple': target, 'via': via,
                    'fault': {'kind': kind, 'frac': frac, 'ref_op': 0, 'step': 1 + int(frac * ctx['step_estimate'].get(g[0], 2000))}})
        ops.append({'op': 'call', 'tuple': ts[dec.choice('sweep-verify', len(ts))], 'via': via, 'verify': True})
    clients = [{'cid': 0, 'placement': 'main' if dec.choice('main', 2) else 'pooled', 'ops': ops}]
    return {'clients': clients, 'sched': {'kind': 'walk', 'p': 1e-4}, 'cold': False, 'shared': [], 'dirty': None,
            'cold_cultures': [], 'sched_seed': derive_seed(run_seed, 'sched'), 'fault_free': False, 'sweep': True}


def gen_get_op(dec, ctx, focus):
    """C17 request: (recogniser kind, requested culture string, fallback, options, target-culture usage, lazy flag)."""
    sup = ctx['supported']
    kinds = sorted(ctx['probes'])
    heavy_ok = any(g[0] == 'DateTime' for g in focus)
    kind = kinds[dec.choice('kind', len(kinds))]
    if kind == 'DateTime' and not heavy_ok and dec.choice('dt-anyway', 4):
        kind = [k for k in kinds if k != 'DateTime'][dec.choice('kind2', len(kinds) - 1)]
    cs, cls = draw_culture_string(dec, sup)
    opt = 0
    if kind == 'DateTime':
        allowed = ctx.get('dt_focus')
        if allowed:
            # keep date-time constructions inside this batch's drawn (culture, option) subset: 1-5 s each
            c0, opt = sorted(allowed)[dec.choice('dt-co', len(allowed))]
            if cls in ('supported', 'variant-single'):
                cs = rand_case(dec, c0 if dec.choice('exact', 2) else {'fr-fr': 'fr-ca', 'de-de': 'de-at', 'pt-br': 'pt-pt', 'zh-cn': 'zh-tw', 'nl-nl': 'nl-be', 'it-it': 'it-ch'}.get(c0, c0))
        else:
            opt = DT_OPTS[dec.choice('opt', len(DT_OPTS))]
    use_target = dec.choice('use-target', 4) == 0
    lazy = bool(dec.choice('lazy', 2))
    target = cs if use_target else ['en-us', 'fr-fr', 'zh-cn', 'EN-US', None][dec.choice('target', 5)]
    if target is None and lazy and kind in ('DateTime',):
        lazy = False      # Recognizer(None, lazy_initialization=True) builds every culture's model: 20 s for date-time
    op = {'op': 'get', 'kind': kind, 'culture': cs, 'culture_class': cls, 'fallback': bool(dec.choice('fallback', 2)),
          'opt': opt, 'use_target': use_target, 'lazy': lazy, 'target': target,
          'probe': pick_probe(dec, ctx['probes'][kind])}
    return op


# ------------------------------------------------------------------------------------------------ execution

RESTORED = {'n': 0}


def evict(scope, focus_cultures=None):
    """Process restart (nothing durable): the cache is lost. 'full' drops everything; 'light' keeps the date-time models
    (1-5 s each to rebuild) — the state 'restarted, date-time already requested again' — so that cold starts stay cheap."""
    cache = lib.cache_dict()
    gone = []
    with barrier.quiet():
        for k in list(cache):
            if k.model_type != 'DateTimeModel' or (scope == 'full' and (not focus_cultures or k.culture in focus_cultures)):
                m = cache.pop(k, None)
                if m is not None:
                    gone.append(m)
        barrier.on_evict(gone)
        # a restart loses every process-wide table, not only the model cache: class-level / module-level containers of
        # the library go back to their contents right after import (lazily filled tables start empty again)
        RESTORED['n'] += barrier.restore_boot_state(skip=(cache,))


KIND_OF_MODEL_TYPE = {v[2]: k for k, v in lib.KINDS.items()}


def _key_list(k):
    """Cache key as a JSON-able list; tolerant of whatever a modified tree puts into its keys."""
    try:
        return [k.model_type, k.culture, None if k.options is None else int(k.options)]
    except Exception:   # noqa
        return [repr(k), None, None]


def restore_cache(keys):
    """Replay: put the process-wide cache into the recorded warm/cold state (which keys were cached when the run
    started), untraced, so that step counts inside ops match the recording."""
    want = {tuple(k) for k in keys}
    cache = lib.cache_dict()
    with barrier.quiet():
        gone = [cache.pop(k) for k in list(cache) if tuple(_key_list(k)) not in want]
    if gone:
        barrier.on_evict(gone)
    have = {tuple(_key_list(k)) for k in cache}
    for (mt, c, o) in sorted(want - have, key=repr):
        kind = KIND_OF_MODEL_TYPE.get(mt)
        if kind is not None and isinstance(c, str) and o is not None:
            rec = lib.recognizer_class(kind)(c, lib.options_value(kind, o), False)
            rec.model_factory.try_get_model(mt, c, rec.options)


ORIGIN = {}     # id(cached model) -> [model type, culture, options] it was REQUESTED with (whatever key the tree files it under)


def cache_origins():
    return [ORIGIN.get(id(v)) for v in lib.cache_dict().values()]


def restore_cache_by_origin(origins):
    """As restore_cache, but by the request that created each cached model instead of by cache key: a modified tree may
    file models under keys that no longer say which culture or options they were built for."""
    want = [tuple(o) for o in origins if o]
    cache = lib.cache_dict()
    with barrier.quiet():
        gone = [cache.pop(k) for k, v in list(cache.items()) if tuple(ORIGIN.get(id(v)) or ()) not in want]
    if gone:
        barrier.on_evict(gone)
    have = {tuple(ORIGIN.get(id(v)) or ()) for v in cache.values()}
    for (mt, c, o) in want:
        kind = KIND_OF_MODEL_TYPE.get(mt)
        if (mt, c, o) not in have and kind is not None and isinstance(c, str) and o is not None:
            rec = lib.recognizer_class(kind)(c, lib.options_value(kind, o), False)
            rec.model_factory.try_get_model(mt, c, rec.options)


class Env:
    """Per-worker state: golden table, pool, seams installed once."""

    def __init__(self, ctx):
        self.ctx = ctx
        self.ctor_count = {}
        self.sched = None
        self.installed = False

    def install(self):
        if self.installed:
            return
        from recognizers_text import recognizer as rmod
        from recognizers_text.model import ModelFactory
        env = self
        orig_register = rmod.Recognizer.register_model

        def register_model(self_, model_type_name, culture, model_ctor):
            def counted(options, _ctor=model_ctor, _key=(model_type_name, culture)):
                env.ctor_count[_key] = env.ctor_count.get(_key, 0) + 1
                s = env.sched
                if s is not None and s.current is not None:
                    c = s.clients_by_id.get(s.current)
                    if c is not None and c.in_op and c.fault_kind == 'alloc-fail-ctor' and c.fault_at == -2:
                        c.fault_at = c.step_in_op + c.pending_ctor_offset
                return _ctor(options)
            return orig_register(self_, model_type_name, culture, counted)
        rmod.Recognizer.register_model = register_model
        orig_insert = ModelFactory.register_model_in_cache

        def register_model_in_cache(self_, model_type_name, culture, options, model):
            orig_insert(self_, model_type_name, culture, options, model)
            try:
                ORIGIN[id(model)] = [model_type_name, culture, None if options is None else int(options)]
            except Exception:   # noqa
                ORIGIN[id(model)] = None
            barrier.on_cache_insert(model)
        ModelFactory.register_model_in_cache = register_model_in_cache
        self.n_barrier_classes = barrier.install()
        self.n_tables = barrier.instrument_process_tables()
        self.n_boot_containers = barrier.snapshot_boot_state()
        self.installed = True


class CtorFaultPolicyMixin:
    pass


def make_policy(plan, n_clients, recorded=None):
    if recorded is not None and recorded.get('switches') is not None:
        return baton.ReplayPolicy(recorded['first'], [list(s) for s in recorded['switches']],
                                  [f[1] for f in recorded['finishes'] if f[1] is not None], recorded.get('faults_fired'))
    dec = Decider(plan['sched_seed'])
    s = plan['sched']
    if s['kind'] == 'pct':
        pol = baton.PCTPolicy(dec, n_clients, s['depth'], s['k'])
    elif s['kind'] == 'rr':
        pol = baton.RoundRobinPolicy(dec, s['q'])
    else:
        pol = baton.RandomWalkPolicy(dec, s['p'])
    pol.dirty = plan.get('dirty')
    return pol


def execute_plan(prop, plan, env, recorded=None):
    """Run one plan under the baton scheduler. -> (record, violations)."""
    ctx = env.ctx
    pool, golden = ctx['pool'], ctx['golden']
    if plan['cold']:
        evict(plan['cold'], plan.get('cold_cultures'))
    if recorded is not None and recorded.get('cache_origins') is not None:
        restore_cache_by_origin(recorded['cache_origins'])
    elif recorded is not None and recorded.get('cache_keys') is not None:
        restore_cache(recorded['cache_keys'])
    cache_keys = sorted((_key_list(k) for k in lib.cache_dict()), key=repr)
    origins = cache_origins()
    barrier.rebuild(lib.cache_dict())
    clients = [baton.Client(c['cid'], c['ops'], c['placement']) for c in plan['clients']]
    policy = make_policy(plan, len(clients), recorded)
    # ctor faults are armed when the wrapped constructor is entered
    orig_on_op_start = policy.on_op_start

    def on_op_start(sched, client, op):
        f0 = op.get('fault')
        if f0 and 'frac' in f0 and not f0.get('resolved') and f0.get('ref_op', 0) < len(client.results):
            # stratified fault point: a fraction of the measured length of the same request earlier in this run
            # (written back into the plan, so a replay uses the concrete step)
            length = client.results[f0['ref_op']].get('steps') or 0
            if length > 1:
                f0['step'] = max(1, min(length - 1, int(f0['frac'] * length)))
            f0['resolved'] = True
        orig_on_op_start(sched, client, op)
        f = op.get('fault')
        client.pending_ctor_offset = 0
        if f and f['kind'] == 'alloc-fail-ctor':
            client.fault_kind = 'alloc-fail-ctor'
            client.fault_at = -2
            client.pending_ctor_offset = f['step']
    policy.on_op_start = on_op_start
    sched = baton.Baton(clients, policy, step_cap=plan.get('step_cap') or ctx.get('step_cap', 5_000_000), hang_s=ctx.get('hang_s', 300))
    env.sched = sched
    barrier.STATE['sched'] = sched
    from . import simlock
    simlock.STATE['sched'] = sched
    sched.dirty_probe = barrier.container_dirty
    barrier.rebase()
    hits0 = barrier.STATE['hits']
    ctor0 = dict(env.ctor_count)

    shared_recs = []
    for sh in plan.get('shared') or []:
        # built before the clients start (untraced, cache untouched: lazy_initialization=False builds no model)
        shared_recs.append(lib.recognizer_class(sh['kind'])(sh['target'], lib.options_value(sh['kind'], sh['opt']), False))

    def exec_op(client, op):
        rec = {'op': op['op'], 'thread': threading.current_thread().name, 'outcome': None}
        if op.get('clock'):
            boot.CLOCK.set(boot.RealDateTime.strptime(op['clock'], '%Y-%m-%dT%H:%M:%S'))
        reads0 = boot.CLOCK.reads
        try:
            if op['op'] == 'restart':
                evict(op.get('scope', 'light'))
                rec['outcome'] = 'ok'
            elif op['op'] == 'gc':
                gc.collect()
                rec['outcome'] = 'ok'
            elif op['op'] == 'call':
                t = pool[op['tuple']]
                rec['result'] = safe_call(do_call, t, op['via'], shared_recs[op['rec']] if 'rec' in op else None)
                rec['outcome'] = 'ok'
            elif op['op'] == 'get':
                rec.update(exec_get(op, ctx, shared_recs[op['rec']] if 'rec' in op else None))
        except baton.Abort:
            rec['outcome'] = 'aborted'
        except MemoryError:
            rec['outcome'] = 'memory-error'
        rec['clock_reads'] = boot.CLOCK.reads - reads0
        rec['steps'] = client.step_in_op
        return rec

    try:
        sched.run(exec_op)
    finally:
        env.sched = None
        barrier.STATE['sched'] = None
        simlock.STATE['sched'] = None
        sys.settrace(None)
    faulted = {(f[0], f[1]) for f in sched.faults_fired if f[3] not in ('stall', 'dirty-stall')}
    violations = []
    results = []
    for c in clients:
        for i, rec in enumerate(c.results):
            op = c.ops[i]
            rec['cid'], rec['idx'] = c.cid, i
            rec['faulted'] = (c.cid, i) in faulted or rec['outcome'] in ('aborted', 'memory-error')
            results.append(rec)
            if rec['faulted']:
                continue          # a faulted op only has to raise or return something
            v = None
            if op['op'] == 'call':
                exp = golden.get(op['tuple'])
                if rec.get('result') != exp:
                    t = pool[op['tuple']]
                    v = {'prop': 'C02', 'class': 'C02|%s|%s|mismatch' % (t['kind'], t['culture']), 'tuple': t,
                         'failure': {'kind': 'result-differs-from-golden', 'expected': exp, 'got': rec.get('result'),
                                     'thread': rec['thread'], 'via': op['via'], 'fresh_thread': bool(op.get('fresh_thread'))}}
            elif op['op'] == 'get':
                v = judge_get(op, rec, ctx)
            if v is not None:
                if prop == 'C02' and v['prop'] != 'C02':
                    continue
                if prop == 'C17' and v['prop'] != 'C17':
                    continue
                v.update({'cid': c.cid, 'op_idx': i, 'op': op})
                violations.append(v)
    if sched.deadlock and prop == 'C02':
        violations.append({'prop': 'C02', 'class': 'C02|deadlock', 'cid': 0, 'op_idx': 0, 'op': clients[0].ops[0] if clients[0].ops else {},
                           'failure': {'kind': 'deadlock', 'site': sched.deadlock,
                                       'detail': 'every simulated caller was waiting for a library lock held by another waiting caller'}})
    ctor_delta = {('%s|%s' % k): env.ctor_count[k] - ctor0.get(k, 0) for k in env.ctor_count if env.ctor_count[k] != ctor0.get(k, 0)}
    record = {
        'first': sched.first_cid, 'cache_keys': cache_keys, 'cache_origins': origins,
        'switches': sched.switches, 'finishes': sched.finishes, 'faults_fired': sched.faults_fired,
        'steps': sched.global_step, 'barrier_hits': barrier.STATE['hits'] - hits0, 'dirty_hits': sched.dirty_hits, 'lock_switches': sched.lock_switches, 'capped': sched.capped,
        'results': results, 'ctor': ctor_delta, 'sites': sorted(sched.sites),
        'divergent': getattr(policy, 'divergent', 0),
    }
    return record, violations


def exec_get(op, ctx, shared_rec=None):
    kind = op['kind']
    cls = lib.recognizer_class(kind)
    o = lib.options_value(kind, op['opt'])
    out = {}
    try:
        rec = shared_rec if shared_rec is not None else cls(op['target'], o, op['lazy'])
        if op['use_target']:
            model = getattr(rec, lib.KINDS[kind][4])(None, op['fallback'])
        else:
            model = getattr(rec, lib.KINDS[kind][4])(op['culture'], op['fallback'])
    except ValueError:
        out['outcome'] = 'ValueError'
        return out
    out['outcome'] = 'model'
    p = ctx['probe_by_key'][op['probe']]
    ref = lib.parse_reference(p['ref']) if p.get('ref') else None
    out['result'] = safe_call(lambda: lib.canon(lib.model_parse(model, kind, p['query'], ref)))
    return out


def judge_get(op, rec, ctx):
    kind = op['kind']
    model_type = lib.KINDS[kind][2]
    reg = set(tuple(x) for x in ctx['registered'][kind])
    # a request without a culture (None) means the recogniser's target culture (documented default of get_*_model)
    requested = op['culture'] if (op['culture'] is not None and not op['use_target']) else op['target']
    exp = routing.expected(model_type, requested, op['fallback'], ctx['supported'], reg)
    fail = None
    if exp[0] == 'ValueError':
        if rec['outcome'] != 'ValueError':
            fail = {'kind': 'model-instead-of-ValueError', 'got': rec.get('result')}
    else:
        if rec['outcome'] != 'model':
            fail = {'kind': 'ValueError-instead-of-model', 'expected_culture': exp[1]}
        else:
            want = ctx['probe_golden']['%s|%s|%d' % (kind, exp[1], op['opt'])][op['probe']]
            if rec.get('result') != want:
                # which registered culture does it behave like, if any (diagnostic only)
                like = [k for k, v in ctx['probe_golden'].items() if k.startswith(kind + '|') and v.get(op['probe']) == rec.get('result')]
                fail = {'kind': 'wrong-model-behaviour', 'expected_culture': exp[1], 'expected': want,
                        'got': rec.get('result'), 'behaves_like': like[:6]}
    if fail is None:
        return None
    req = {'family': 'get', 'culture': op['culture'], 'kind': kind, 'culture_class': op['culture_class']}
    k = known.match(ctx['known'], 'C17', dict(req, op=op), [], fail)
    if k is not None:
        rec['known'] = k
        return None
    return {'prop': 'C17', 'class': 'C17|%s|%s|%s' % (kind, op['culture_class'], fail['kind']), 'failure': fail}


# ------------------------------------------------------------------------------------------------ worker entry

def load_ctx(job):
    with open(job['ctx_file'], encoding='utf-8') as f:
        ctx = json.load(f)
    ctx['pool'] = {t['key']: t for t in ctx['pool_list']}
    groups = {}
    for t in ctx['pool_list']:
        groups.setdefault(group_of(t), []).append(t['key'])
    ctx['groups'] = groups
    ctx['probe_by_key'] = {p['key']: p for ps in ctx['probes'].values() for p in ps}
    ctx['known'] = known.load()
    ctx['step_estimate'] = dict(ctx.get('step_estimate') or {})
    if ctx.get('dt_focus'):
        ctx['dt_focus'] = set(tuple(x) for x in ctx['dt_focus'])
    return ctx


def signature(plan, record):
    ops = [[(o['op'], o.get('tuple') or o.get('culture'), bool(o.get('fresh_thread'))) for o in c['ops']] for c in plan['clients']]
    sw = [(s[0], s[3], s[4]) for s in record['switches']]
    ff = [(f[0], f[1], f[3]) for f in record['faults_fired']]
    return lib.digest([ops, sw, ff, [c['placement'] for c in plan['clients']], plan['cold']])


def nontrivial(plan, record):
    lib_switch = any(s[5] in ('step', 'barrier', 'dirty', 'stall') for s in record['switches'])
    multi = len(plan['clients']) >= 2 and lib_switch
    seen = set()
    repeat = False
    for c in plan['clients']:
        for o in c['ops']:
            if o['op'] == 'call':
                q = o['tuple'].split('|', 4)[-1]
                if q in seen:
                    repeat = True
                seen.add(q)
    return multi or bool(record['faults_fired']) or repeat


def c17_dt_focus(bdec, registered_dt):
    """C17 date-time focus of a batch: ONE culture under EVERY option value (option collisions need two option values
    of the same culture in one process) plus the English default model. English every other batch: the
    option-sensitive probes are English."""
    cults = sorted({c for (mt, c) in registered_dt})
    c = 'en-us' if bdec.choice('dt-en', 2) == 0 else cults[bdec.choice('dt-culture', len(cults))]
    return {(c, o) for o in DT_OPTS} | {('en-us', 0)}


def run_batch(job):
    import time as _time
    _t0 = _time.time()
    prop, seed, tier = job['prop'], job['seed'], job['tier']
    ctx = load_ctx(job)
    # per-batch date-time focus (constructions cost seconds): drawn from the seed, recorded in the report
    bdec = Decider(derive_seed(seed, prop, 'batch', job['batch']))
    dt_groups = sorted({(g[1], g[2]) for g in ctx['groups'] if g[0] == 'DateTime'})
    if prop == 'C17':
        ctx['dt_focus'] = c17_dt_focus(bdec, ctx['registered']['DateTime'])
    else:
        ctx['dt_focus'] = set(bdec.sample('dt-focus', dt_groups, 3)) | {('en-us', 0)}
    ctx['p_heavy'] = 0.25
    # long-uptime batches: no cold start and no restart for the whole batch (hundreds of requests in one process), so
    # that capacity- or count-dependent state (bounded caches, ring buffers, counters) can fill up and wrap
    ctx['no_restart'] = bdec.choice('long-uptime', 2) == 0
    env = Env(ctx)
    env.install()
    # pre-warm (untraced): this batch's date-time models, so that only runs that ask for a cold start pay for them
    for (c, o) in sorted(ctx['dt_focus']):
        lib.get_model('DateTime', c, o)
    rep = {'prop': prop, 'batch': job['batch'], 'runs': 0, 'ops': 0, 'steps': 0, 'switches': 0, 'signatures': {},
           'faults': {}, 'violations': [], 'known': {}, 'digests': [], 'samples': [], 'sites': {}, 'barrier_hits': 0,
           'barrier_sites': {}, 'ctor': {}, 'double_ctor': 0, 'placements': {}, 'threads': {}, 'capped': 0,
           'clock_reads_in_explicit_calls': 0, 'cold_runs': 0, 'restarts': 0, 'faulted_ops': 0, 'checked_ops': 0,
           'swallowed_abort': 0, 'dt_focus': sorted(ctx['dt_focus']), 'barrier_classes': env.n_barrier_classes,
           'sched_kinds': {}, 'culture_classes': {}, 'get_outcomes': {}, 'observed_steps': {}, 'boot_containers': env.n_boot_containers, 'long_uptime_batch': int(bool(ctx['no_restart'])), 'process_tables_instrumented': env.n_tables}
    est = ctx['step_estimate']
    slow = []
    for idx in range(job['first'], job['first'] + job['count']):
        run_seed = derive_seed(seed, prop, idx)
        plan = gen_plan(prop, run_seed, tier, ctx)
        _t1 = _time.time()
        record, violations = execute_plan(prop, plan, env)
        slow.append([round(_time.time() - _t1, 1), idx, 'burst' if plan.get('burst') else 'sweep' if plan.get('sweep') else '%d-clients' % len(plan['clients']), record['steps']])
        rep['runs'] += 1
        rep['steps'] += record['steps']
        rep['switches'] += len(record['switches'])
        rep['barrier_hits'] += record['barrier_hits']
        rep['dirty_hits'] = rep.get('dirty_hits', 0) + record['dirty_hits']
        rep['lock_switches'] = rep.get('lock_switches', 0) + record['lock_switches']
        rep['capped'] += int(record['capped'])
        rep['cold_runs'] += int(bool(plan['cold']))
        rep['sched_kinds'][plan['sched']['kind']] = rep['sched_kinds'].get(plan['sched']['kind'], 0) + 1
        rep['sweeps'] = rep.get('sweeps', 0) + int(bool(plan.get('sweep')))
        rep['bursts'] = rep.get('bursts', 0) + int(bool(plan.get('burst')))
        n = str(len(plan['clients']))
        rep['threads'][n] = rep['threads'].get(n, 0) + 1
        for f in record['faults_fired']:
            rep['faults'][f[3]] = rep['faults'].get(f[3], 0) + 1
        for k, v in record['ctor'].items():
            rep['ctor'][k] = rep['ctor'].get(k, 0) + v
            if v > 1:
                rep['double_ctor'] += 1
        for s in record['sites']:
            rep['sites'][s] = rep['sites'].get(s, 0) + 1
        for r in record['results']:
            rep['ops'] += 1
            if r['faulted']:
                rep['faulted_ops'] += 1
                if r['outcome'] == 'ok' or r['outcome'] == 'model':
                    rep['swallowed_abort'] += 1
            elif r['op'] in ('call', 'get'):
                rep['checked_ops'] += 1
            if r['op'] == 'restart':
                rep['restarts'] += 1
                rep['faults']['restart'] = rep['faults'].get('restart', 0) + 1
            if r['op'] == 'call' and not r['faulted']:
                rep['clock_reads_in_explicit_calls'] += r.get('clock_reads', 0)
                kind = ctx['pool'][plan['clients'][r['cid']]['ops'][r['idx']]['tuple']]['kind']
                obs = rep['observed_steps'].setdefault(kind, [0, 0])
                obs[0] += 1
                obs[1] += r['steps']
            if r.get('known'):
                rep['known'][r['known']] = rep['known'].get(r['known'], 0) + 1
            if r['op'] == 'get':
                o = plan['clients'][r['cid']]['ops'][r['idx']]
                rep['culture_classes'][o['culture_class']] = rep['culture_classes'].get(o['culture_class'], 0) + 1
                rep['get_outcomes'][r['outcome']] = rep['get_outcomes'].get(r['outcome'], 0) + 1
            th = 'main' if r['thread'] == 'MainThread' else ('fresh' if r['thread'].startswith('fresh') else 'pooled')
            rep['placements'][th] = rep['placements'].get(th, 0) + 1
        for c in plan['clients']:
            for o in c['ops']:
                if o.get('clock'):
                    rep['faults']['clock-step'] = rep['faults'].get('clock-step', 0) + 1
        sig = signature(plan, record)
        rep['signatures'][sig] = rep['signatures'].get(sig, False) or nontrivial(plan, record)
        rep['digests'].append([idx, lib.digest([record['switches'], record['finishes'], record['faults_fired'],
                                                 [[r.get('result'), r['outcome']] for r in record['results']]])])
        if len(rep['samples']) < 1 and len(plan['clients']) > 1 and record['switches']:
            rep['samples'].append({'run': idx, 'run_seed': run_seed, 'plan': plan,
                                   'switches': record['switches'][:12], 'faults_fired': record['faults_fired']})
        for v in violations:
            v.update({'run': idx, 'batch': job['batch'], 'plan': plan, 'prewarm': [list(x) for x in sorted(ctx['dt_focus'])],
                      'recorded': {'first': record['first'], 'switches': record['switches'],
                                   'finishes': record['finishes'], 'cache_keys': record['cache_keys'], 'cache_origins': record['cache_origins'],
                                   'faults_fired': record['faults_fired']}})
            rep['violations'].append(v)
        if len(rep['violations']) >= 4:
            break
    rep['barrier_sites'] = dict(barrier.STATE['sites'])
    rep['batch_wall_s'] = round(_time.time() - _t0, 1)
    rep['slowest_runs'] = sorted(slow, reverse=True)[:3]
    rep['process_tables_reset_by_restart'] = RESTORED['n']
    return rep


def replay_job(job):
    """Execute a list of recorded runs (plans + schedules) in order in this fresh process."""
    ctx = load_ctx(job)
    ctx['p_heavy'] = 0.25
    env = Env(ctx)
    env.install()
    for (c, o) in job.get('prewarm') or []:
        lib.get_model('DateTime', c, o)       # the batch's date-time models were warm when the run was recorded
    outs = []
    for item in job['runs']:
        record, violations = execute_plan(job['prop'], item['plan'], env, item.get('recorded'))
        outs.append({'violations': [{k: v[k] for k in ('prop', 'class', 'failure', 'cid', 'op_idx')} for v in violations],
                     'divergent': record['divergent'], 'steps': record['steps'], 'n_switches': len(record['switches']),
                     'faults_fired': record['faults_fired'], 'op_steps': [[r['cid'], r['idx'], r['steps']] for r in record['results']],
                     'digest': lib.digest([record['switches'], record['finishes'], record['faults_fired'],
                                           [[r.get('result'), r['outcome']] for r in record['results']]])})
    return {'outcomes': outs}


def dispatch(job):
    kind = job['kind']
    if kind == 'callsim-golden':
        return golden_job(job)
    if kind == 'callsim-probes':
        return probes_job(job)
    if kind == 'callsim-batch':
        return run_batch(job)
    if kind == 'callsim-replay':
        return replay_job(job)
    if kind == 'callsim-registered':
        return {'pairs': live_registered(), 'supported': supported_codes()}
    raise boot.HarnessError('unknown callsim job %r' % kind)
