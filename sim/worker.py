"""Worker process entry point: `python worker.py <jobfile>`; writes the report to job['out'] (JSON).

Exit status 0 = report written (violations are data, not an exit status); anything else = harness error.
"""
import faulthandler
import json
import os
import sys
import traceback
import warnings


def main():
    warnings.simplefilter('ignore')
    jobfile = sys.argv[1]
    with open(jobfile, encoding='utf-8') as f:
        job = json.load(f)
    faulthandler.enable()
    faulthandler.dump_traceback_later(job.get('hang_dump_s', 600), exit=False)
    sys.path.insert(0, os.path.dirname(os.path.dirname(os.path.abspath(__file__))))
    from sim import boot
    if job.get('kind', '').startswith('callsim'):
        # baton-passed threads never run in parallel; on one CPU a hand-over is a local wake-up instead of a cross-core one
        # (measured: a 10-caller lockstep run 104 s unpinned on an idle machine, see DESIGN.md). Wall time only: the
        # schedule is decided by the policy, not by the OS.
        try:
            cpus = sorted(os.sched_getaffinity(0))
            if job.get('cpu_slot') is not None and len(cpus) > 1 and not os.environ.get('VERIF_NO_PIN'):
                os.sched_setaffinity(0, {cpus[job['cpu_slot'] % len(cpus)]})
        except (AttributeError, OSError):   # pragma: no cover
            pass
        from sim import simlock
        simlock.install()       # library-created locks become simulator-aware (before the library is imported)
    rep = {'ok': False}
    try:
        if job.get('import_on_thread'):
            # library imported on a short-lived worker thread: the main thread keeps Python's default decimal context
            import threading
            err = []

            def imp():
                try:
                    boot.boot()
                except BaseException as e:   # noqa
                    err.append(e)
            th = threading.Thread(target=imp)
            th.start()
            th.join()
            if err:
                raise err[0]
        else:
            boot.boot()
        kind = job['kind']
        if kind == 'clocksim-batch':
            from sim import clocksim
            rep = clocksim.run_batch(job)
        elif kind == 'clocksim-replay':
            from sim import clocksim
            rep = {'outcomes': clocksim.replay_events(job['prop'], job['events'])}
        elif kind.startswith('callsim'):
            from sim import callsim
            rep = callsim.dispatch(job)
        else:
            raise boot.HarnessError('unknown job kind %r' % kind)
        rep['ok'] = True
        rep['stubs'] = boot.stub_report()
        rep['hashseed'] = os.environ.get('PYTHONHASHSEED')
    except BaseException as e:   # noqa
        rep = {'ok': False, 'error': repr(e), 'traceback': traceback.format_exc()}
    tmp = job['out'] + '.tmp'
    with open(tmp, 'w', encoding='utf-8') as f:
        json.dump(rep, f, ensure_ascii=False)
    os.replace(tmp, job['out'])
    faulthandler.cancel_dump_traceback_later()
    sys.stdout.flush()
    os._exit(0 if rep.get('ok') else 3)


if __name__ == '__main__':
    main()
