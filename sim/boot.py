"""Bootstrap: import the tree under VERIF_REPO_ROOT (default /repo) with the simulator's seams installed.

* puts the tree's package directories FIRST on sys.path (stale PyPI copies live in site-packages),
* appends /verif/stubs LAST (datedelta, grapheme are not installable in this sandbox),
* installs the wall-clock seam: while the library is imported, `datetime.datetime` is SimDateTime, so every
  `from datetime import datetime` in the library binds to a class whose now()/today()/utcnow() read the
  simulator's clock. The attribute is restored right after the import.
* asserts that every recognizers_* / datatypes_* module was loaded from the tree.

Nothing here touches /repo.
"""
import datetime as _dtmod
import importlib
import os
import sys

VERIF_DIR = os.path.dirname(os.path.dirname(os.path.abspath(__file__)))
REPO_ROOT = os.path.abspath(os.environ.get('VERIF_REPO_ROOT', '/repo'))
LIB_ROOT = os.path.join(REPO_ROOT, 'Python', 'libraries')
LIB_DIRS = [
    'recognizers-text', 'recognizers-number', 'recognizers-number-with-unit', 'recognizers-date-time',
    'recognizers-sequence', 'recognizers-choice', 'datatypes-timex-expression', 'recognizers-suite',
]
STUB_DIR = os.path.join(VERIF_DIR, 'stubs')
GUARD = 'RECOGNIZERS_TEXT_VERIF'

RealDateTime = _dtmod.datetime


class HarnessError(Exception):
    """Infrastructure failure (exit 2). Never a VIOLATION."""


class SimClock:
    """The only wall clock the library can see. `now()` is called by SimDateTime.now()."""

    def __init__(self):
        self.instant = RealDateTime(2020, 1, 1, 12, 0, 0, 123456)
        self.reads = 0
        self.read_log = None      # list to append (site, instant) to, or None
        self.on_read = None       # callable(clock) -> None, invoked AFTER the value for this read is taken
        self.script = None        # optional list of instants to serve, one per read (torn/backstep faults)

    def set(self, instant):
        self.instant = instant

    def now(self):
        self.reads += 1
        if self.script:
            self.instant = self.script.pop(0)
        value = self.instant
        if self.read_log is not None:
            f = sys._getframe(2)
            self.read_log.append((os.path.basename(f.f_code.co_filename), f.f_lineno, value.isoformat()))
        if self.on_read is not None:
            self.on_read(self)
        return value


CLOCK = SimClock()


class _SimMeta(type(RealDateTime)):
    def __instancecheck__(cls, obj):
        return isinstance(obj, RealDateTime)

    def __subclasscheck__(cls, sub):
        return issubclass(sub, RealDateTime)


class SimDateTime(RealDateTime, metaclass=_SimMeta):
    """Never instantiated: construction yields plain datetimes; only the clock reads are redirected."""

    def __new__(cls, *args, **kwargs):
        return RealDateTime(*args, **kwargs)

    @classmethod
    def now(cls, tz=None):
        v = CLOCK.now()
        return v if tz is None else v.replace(tzinfo=tz)

    @classmethod
    def today(cls):
        return CLOCK.now()

    @classmethod
    def utcnow(cls):
        return CLOCK.now()

    # classmethod constructors of datetime build `cls(...)`; route them to the real class
    @classmethod
    def strptime(cls, *a, **k):
        return RealDateTime.strptime(*a, **k)

    @classmethod
    def fromtimestamp(cls, *a, **k):
        return RealDateTime.fromtimestamp(*a, **k)

    @classmethod
    def fromisoformat(cls, *a, **k):
        return RealDateTime.fromisoformat(*a, **k)

    @classmethod
    def combine(cls, *a, **k):
        return RealDateTime.combine(*a, **k)

    @classmethod
    def fromordinal(cls, *a, **k):
        return RealDateTime.fromordinal(*a, **k)


_booted = False
MODULE_ROOTS = ('recognizers_text', 'recognizers_number', 'recognizers_number_with_unit', 'recognizers_date_time',
                'recognizers_sequence', 'recognizers_choice', 'datatypes_timex_expression', 'recognizers_suite')


def setup_path():
    for d in reversed(LIB_DIRS):
        p = os.path.join(LIB_ROOT, d)
        if not os.path.isdir(p):
            raise HarnessError('missing library directory %s' % p)
        if p in sys.path:
            sys.path.remove(p)
        sys.path.insert(0, p)
    if STUB_DIR in sys.path:
        sys.path.remove(STUB_DIR)
    sys.path.append(STUB_DIR)


def boot(packages=('recognizers_text', 'recognizers_number', 'recognizers_number_with_unit',
                   'recognizers_date_time', 'recognizers_sequence', 'recognizers_choice',
                   'datatypes_timex_expression')):
    """Import the tree with the clock seam installed. Idempotent. Returns dict name -> module."""
    global _booted
    os.environ[GUARD] = '1'
    setup_path()
    for name in list(sys.modules):
        if not _booted and name.split('.')[0] in MODULE_ROOTS:
            raise HarnessError('library module %s imported before boot()' % name)
    mods = {}
    _dtmod.datetime = SimDateTime
    try:
        for p in packages:
            mods[p] = importlib.import_module(p)
    finally:
        _dtmod.datetime = RealDateTime
    _booted = True
    try:
        # tuning knob of a dependency, not of the library: regex keeps at most 500 compiled patterns and recompiles
        # (pure Python, seconds per culture) on overflow; simulated cold starts rebuild models thousands of times
        import regex._main as _rm
        _rm._MAXCACHE = 10 ** 7
    except Exception:   # pragma: no cover
        pass
    verify_origin()
    return mods


def verify_origin():
    bad = []
    for name, m in list(sys.modules.items()):
        if name.split('.')[0] in MODULE_ROOTS:
            f = getattr(m, '__file__', None)
            if f and not os.path.abspath(f).startswith(LIB_ROOT + os.sep):
                bad.append((name, f))
    if bad:
        raise HarnessError('library modules loaded from outside %s: %r' % (LIB_ROOT, bad[:3]))


def stub_report():
    """Which third-party dependencies are stubs in this process (for evidence)."""
    out = {}
    for name in ('datedelta', 'grapheme'):
        m = sys.modules.get(name)
        if m is None:
            try:
                m = importlib.import_module(name)
            except Exception:   # pragma: no cover
                out[name] = 'missing'
                continue
        out[name] = 'stub' if getattr(m, 'VERIF_STUB', False) else 'real'
    return out


def repo_head():
    try:
        import subprocess
        h = subprocess.run(['git', '-C', REPO_ROOT, 'rev-parse', 'HEAD'], capture_output=True, text=True, timeout=20).stdout.strip()
        d = subprocess.run(['git', '-C', REPO_ROOT, 'status', '--porcelain', '--', 'Python'], capture_output=True, text=True,
                           timeout=60).stdout.strip()
        return {'head': h, 'dirty': bool(d)}
    except Exception as e:   # pragma: no cover
        return {'head': None, 'error': repr(e)}
