"""Lock seam: locks created BY THE LIBRARY are simulator-aware.

`threading.Lock` / `threading.RLock` are replaced (in worker processes, before the library is imported) by factories
that hand out the real thing to everybody except callers whose code lives in the tree under test. A library lock is a
SimLock: uncontended it behaves like a real lock; when a simulated caller would BLOCK on it, it hands the baton to
the lock's owner instead of blocking the only running thread (which would hang the simulation), and is not runnable
again until the lock is free. Outside a simulated run (golden passes, import time) it is an ordinary lock.
"""
import sys
import threading

from .boot import LIB_ROOT

_real_Lock = threading.Lock
_real_RLock = threading.RLock
STATE = {'sched': None, 'created': 0, 'contended': 0, 'installed': False}
import os as _os
DEBUG = bool(_os.environ.get('VERIF_LOCK_DEBUG'))
TRACE = []      # ring buffer of recent lock events (dumped when the simulation hangs)


def _note(ev, lock, me):
    TRACE.append((ev, id(lock) % 100000, me, threading.current_thread().name))
    if len(TRACE) > 4000:
        del TRACE[:1000]


def _current_client():
    s = STATE['sched']
    if s is None or s.current is None:
        return None, None
    c = s.clients_by_id.get(s.current)
    if c is None or c.thread_ident != threading.get_ident():
        return s, None
    return s, c


class SimLock:
    _reentrant = False

    def __init__(self):
        self._real = _real_RLock() if self._reentrant else _real_Lock()
        self._owner = None          # client (simulated run) or thread ident (otherwise)
        self._count = 0
        STATE['created'] += 1

    def _me(self):
        s, c = _current_client()
        return s, c, (('client', c.cid) if c is not None else ('thread', threading.get_ident()))

    def acquire(self, blocking=True, timeout=-1):
        s, c, me = self._me()
        _note('acq?', self, me)
        if self._reentrant and self._owner == me:
            self._count += 1
            return True
        if c is None or not c.in_op:
            ok = self._real.acquire(blocking, timeout) if blocking else self._real.acquire(False)
            if ok:
                self._owner, self._count = me, 1
                _note('acq!real', self, me)
            return ok
        # simulated caller: never block the only running thread
        if DEBUG and self._owner == me and not self._reentrant:
            import traceback
            sys.stderr.write('SELF-DEADLOCK on a library lock; it was acquired here and never released:\n%s\nnow requested here:\n%s\n'
                             % (getattr(self, '_where', '?'), ''.join(traceback.format_stack(limit=14))))
            sys.stderr.flush()
        while not self._real.acquire(False):
            if not blocking:
                return False
            STATE['contended'] += 1
            s.block_on_lock(c, self, sys._getframe(1))
        self._owner, self._count = me, 1
        _note('acq!', self, me)
        if DEBUG:
            import traceback
            self._where = ''.join(traceback.format_stack(limit=14))
        return True

    def release(self):
        _note('rel', self, self._owner)
        if self._reentrant:
            self._count -= 1
            if self._count > 0:
                return
        self._owner, self._count = None, 0
        self._real.release()

    def locked(self):
        return self._owner is not None

    def owner_client_id(self):
        o = self._owner
        return o[1] if o and o[0] == 'client' else None

    __enter__ = acquire

    def __exit__(self, *a):
        self.release()

    def _is_owned(self):
        return self._owner == self._me()[2]


class SimRLock(SimLock):
    _reentrant = True


def _from_library(depth=2):
    try:
        fn = sys._getframe(depth).f_code.co_filename
    except ValueError:
        return False
    return fn.startswith(LIB_ROOT)


def _Lock():
    return SimLock() if _from_library() else _real_Lock()


def _RLock(*a, **k):
    return SimRLock() if _from_library() else _real_RLock(*a, **k)


def install():
    if not STATE['installed']:
        threading.Lock = _Lock
        threading.RLock = _RLock
        STATE['installed'] = True
