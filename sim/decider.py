"""One integer decides everything: every choice of a run is drawn through a Decider seeded from
blake2b(VERIF_SEED || check || index). Logging never draws and never reads a clock."""
import hashlib
import random


def derive_seed(*parts):
    h = hashlib.blake2b('\x1f'.join(str(p) for p in parts).encode('utf-8'), digest_size=8).digest()
    return int.from_bytes(h, 'big')


class Decider:
    def __init__(self, seed, record=False):
        self.seed = seed
        self.rng = random.Random(seed)
        self.draws = 0
        self.log = [] if record else None

    def choice(self, kind, bound):
        """Uniform integer in [0, bound)."""
        if bound <= 1:
            v = 0
        else:
            v = self.rng.randrange(bound)
        self.draws += 1
        if self.log is not None:
            self.log.append((kind, bound, v))
        return v

    def chance(self, kind, p):
        v = self.rng.random() < p
        self.draws += 1
        if self.log is not None:
            self.log.append((kind, p, int(v)))
        return v

    def uniform(self, kind, a, b):
        v = a + (b - a) * self.rng.random()
        self.draws += 1
        if self.log is not None:
            self.log.append((kind, (a, b), v))
        return v

    def expo(self, kind, mean):
        v = self.rng.expovariate(1.0 / mean)
        self.draws += 1
        if self.log is not None:
            self.log.append((kind, mean, v))
        return v

    def pick(self, kind, seq):
        return seq[self.choice(kind, len(seq))]

    def sample(self, kind, seq, k):
        seq = list(seq)
        out = []
        for _ in range(min(k, len(seq))):
            out.append(seq.pop(self.choice(kind, len(seq))))
        return out

    def fork(self, label):
        return Decider(derive_seed(self.seed, label), record=self.log is not None)
