"""Framework self-tests: environment, determinism (same seed twice, other worker count, other hash seed), sensitivity."""
import json
import os
import sys

from . import orchestrator as orch
from .boot import HarnessError


def env_check():
    """setup_cmd: everything the checks need is on disk and importable, offline."""
    scratch = orch.scratch_dir()
    try:
        rep = orch.run_jobs([{'kind': 'clocksim-replay', 'prop': 'C08', 'hashseed': 1, 'events': [
            {'k': 0, 't': '2020-02-29T23:59:59.500000', 'adv': 'x', 'mode': 'implicit', 'fault': None,
             'req': {'prop': 'C08', 'family': 'special_day', 'params': {'offset': 1}, 'culture': 'en-us',
                     'text': 'tomorrow', 'lit': [0, 7], 'deciding': True}}]}], 1, 300, scratch)[0]
        out = rep['outcomes'][0]
        if out.get('violation'):
            print('selftest-env: smoke request failed: %s' % json.dumps(out['violation'])[:300])
            return 2
        print('selftest-env: ok (python %s, stubs %s)' % (sys.version.split()[0], rep.get('stubs')))
        return 0
    finally:
        orch.cleanup(scratch)


def main(target, seed, workers):
    if target == 'selftest-env':
        return env_check()
    if target == 'selftest-determinism':
        from . import selftest_det
        return selftest_det.main(seed, workers)
    if target == 'selftest-sensitivity':
        from . import selftest_sens
        return selftest_sens.main(seed, workers, os.environ.get('VERIF_CANARY'))
    raise HarnessError('unknown selftest %r' % target)
