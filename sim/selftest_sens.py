"""selftest-sensitivity: canary defects planted in a scratch copy of the library must be caught by the matching check
within a small budget, and the minimised replay must fail on the canary and pass on the pristine tree.

The scratch copy lives under the system temp directory (never under /repo or /verif) and is removed afterwards.
"""
import os
import re
import shutil
import subprocess
import sys
import tempfile
import time

from .boot import REPO_ROOT, VERIF_DIR

DT = 'recognizers-date-time/recognizers_date_time/date_time/'
CANARIES = [
    # (name, property, [(file, old, new) | (file, None, appended text)], extra check args)
    ('race: date parser parks the reference on self', 'C02', [
        (DT + 'base_date.py', "        if reference is None:\n            reference = datetime.now()\n\n        result_value: DateTimeParseResult = None\n",
         "        if reference is None:\n            reference = datetime.now()\n        self._ref = reference\n\n        result_value: DateTimeParseResult = None\n"),
        (DT + 'base_date.py', "        trimmed_source = source.strip()\n        result = DateTimeResolutionResult()\n\n        # handle \"on 12\"",
         "        trimmed_source = source.strip()\n        reference = self._ref\n        result = DateTimeResolutionResult()\n\n        # handle \"on 12\""),
    ], ['--batches', '16', '--runs', '60']),
    ('history: number extractor memoises its result list by source text', 'C02', [
        ('recognizers-number/recognizers_number/number/extractors.py', None,
         "\n\n_orig_extract = BaseNumberExtractor.extract\n\n\ndef _memo_extract(self, source):\n    memo = self.__dict__.setdefault('_memo', {})\n"
         "    if source not in memo:\n        memo[source] = _orig_extract(self, source)\n    return memo[source]\n\n\nBaseNumberExtractor.extract = _memo_extract\n"),
    ], ['--batches', '8', '--runs', '40']),
    ('cache key drops options', 'C17', [
        ('recognizers-text/recognizers_text/model.py', "        key = CacheKey(model_type=model_type_name,\n                       culture=culture, options=options)\n        return ModelFactory.__cache.get(key, None)",
         "        key = CacheKey(model_type=model_type_name,\n                       culture=culture, options=None)\n        return ModelFactory.__cache.get(key, None)"),
        ('recognizers-text/recognizers_text/model.py', "        key = CacheKey(model_type=model_type_name,\n                       culture=culture, options=options)\n        ModelFactory.__cache[key] = model",
         "        key = CacheKey(model_type=model_type_name,\n                       culture=culture, options=None)\n        ModelFactory.__cache[key] = model"),
    ], ['--batches', '16', '--runs', '40']),
    ('cache key drops culture', 'C17', [
        ('recognizers-text/recognizers_text/model.py', "        key = CacheKey(model_type=model_type_name,\n                       culture=culture, options=options)\n        return ModelFactory.__cache.get(key, None)",
         "        key = CacheKey(model_type=model_type_name,\n                       culture=None, options=options)\n        return ModelFactory.__cache.get(key, None)"),
        ('recognizers-text/recognizers_text/model.py', "        key = CacheKey(model_type=model_type_name,\n                       culture=culture, options=options)\n        ModelFactory.__cache[key] = model",
         "        key = CacheKey(model_type=model_type_name,\n                       culture=None, options=options)\n        ModelFactory.__cache[key] = model"),
    ], ['--batches', '8', '--runs', '30']),
    ('thread placement: number parse loses its local decimal precision', 'C02', [
        ('recognizers-number/recognizers_number/number/parsers.py', "    @precision(prec=15)\n    def parse(self, source: ExtractResult) -> Optional[ParseResult]:\n        # Check if the parser",
         "    def parse(self, source: ExtractResult) -> Optional[ParseResult]:\n        # Check if the parser"),
    ], ['--batches', '8', '--runs', '40']),
    ("clock leak: 'this/next/last week' reads the wall clock instead of the reference", 'C08', [
        (DT + 'base_dateperiod.py', "                    begin_date = DateUtils.this(reference, DayOfWeek.MONDAY) + datedelta(days=7 * swift)\n                    end_date = DateUtils.this(reference, DayOfWeek.SUNDAY) + datedelta(days=7 * swift)\n\n                    if early_prefix:",
         "                    begin_date = DateUtils.this(datetime.now(), DayOfWeek.MONDAY) + datedelta(days=7 * swift)\n                    end_date = DateUtils.this(reference, DayOfWeek.SUNDAY) + datedelta(days=7 * swift)\n\n                    if early_prefix:"),
    ], ['--batches', '8', '--runs', '20']),
    ("month shift is applied to the reference day again (reverts the 29th-31st repair)", 'C08', [
        (DT + 'base_dateperiod.py', "                    temp_date = reference.replace(day=1) + datedelta(months=swift)", "                    temp_date = reference + datedelta(months=swift)"),
    ], ['--batches', '16', '--runs', '40']),
    ('weekday past/future split uses <= for the future side', 'C09', [
        (DT + 'base_date.py', "            if future_date < reference:\n                future_date += timedelta(weeks=1)\n\n            if past_date >= reference:\n                past_date -= timedelta(weeks=1)",
         "            if future_date <= reference:\n                future_date += timedelta(weeks=1)\n\n            if past_date >= reference:\n                past_date -= timedelta(weeks=1)"),
    ], ['--batches', '16', '--runs', '40']),
    ('format_date drops zero padding of the day', 'C06', [
        (DT + 'utilities.py', "        return f'{date.year:04d}-{date.month:02d}-{date.day:02d}'", "        return f'{date.year:04d}-{date.month:02d}-{date.day:d}'"),
    ], ['--batches', '4', '--runs', '10']),
    ('format_date drops zero padding of the day (seen by the shape monitor)', 'C11', [
        (DT + 'utilities.py', "        return f'{date.year:04d}-{date.month:02d}-{date.day:02d}'", "        return f'{date.year:04d}-{date.month:02d}-{date.day:d}'"),
    ], ['--batches', '4', '--runs', '10']),
    ('hour 0 is dropped again (reverts the 00:MM repair)', 'C07', [
        (DT + 'base_time.py', "                ) else self.config.numbers.get(hour_str, None)\n                if hour is None:\n                    return result",
         "                ) else self.config.numbers.get(hour_str, None)\n                if not hour:\n                    return result"),
    ], ['--batches', '4', '--runs', '20']),
]


def make_scratch():
    root = tempfile.mkdtemp(prefix='rtverif-canary-')
    os.makedirs(os.path.join(root, 'Python'))
    shutil.copytree(os.path.join(REPO_ROOT, 'Python', 'libraries'), os.path.join(root, 'Python', 'libraries'),
                    ignore=shutil.ignore_patterns('__pycache__', '*.pyc'))
    os.symlink(os.path.join(REPO_ROOT, 'Specs'), os.path.join(root, 'Specs'))
    return root


def apply(root, edits):
    for rel, old, new in edits:
        p = os.path.join(root, 'Python', 'libraries', rel)
        s = open(p, encoding='utf-8').read()
        if old is None:
            s += new
        else:
            if s.count(old) != 1:
                raise RuntimeError('canary anchor not found exactly once in %s: %r' % (rel, old[:60]))
            s = s.replace(old, new)
        open(p, 'w', encoding='utf-8').write(s)


def run_check(root, prop, args, replay_dir, seed):
    env = dict(os.environ, VERIF_REPO_ROOT=root, VERIF_REPLAY_DIR=replay_dir, VERIF_SEED=str(seed))
    p = subprocess.run([sys.executable, os.path.join(VERIF_DIR, 'check.py'), prop, '--no-evidence'] + args, env=env,
                       capture_output=True, text=True, timeout=7200)
    return p.returncode, p.stdout + p.stderr


def run_replay(root, prop, path):
    env = dict(os.environ, VERIF_REPO_ROOT=root)
    p = subprocess.run([sys.executable, os.path.join(VERIF_DIR, 'check.py'), prop, '--replay', path], env=env,
                       capture_output=True, text=True, timeout=3600)
    return p.returncode, p.stdout + p.stderr


def main(seed, workers, only=None):
    failures = 0
    t00 = time.time()
    for name, prop, edits, args in CANARIES:
        if only and only not in name and only != prop:
            continue
        t0 = time.time()
        root = make_scratch()
        rdir = tempfile.mkdtemp(prefix='rtverif-canary-replays-')
        try:
            apply(root, edits)
            rc, out = run_check(root, prop, args, rdir, seed)
            m = re.search(r'VIOLATION property=(\S+) replay=(\S+)', out)
            if rc != 1 or not m or m.group(1) != prop:
                failures += 1
                print('MISSED   %-4s %s (exit %s)\n%s' % (prop, name, rc, out[-600:]))
                continue
            path = m.group(2)
            rc1, out1 = run_replay(root, prop, path)
            rc0, out0 = run_replay(REPO_ROOT, prop, path)
            ok = rc1 == 1 and rc0 == 0
            failures += 0 if ok else 1
            print('%s %-4s %s: caught in %.0fs; replay on canary exit %d, on pristine tree exit %d' % (
                'CAUGHT  ' if ok else 'REPLAY? ', prop, name, time.time() - t0, rc1, rc0))
            if not ok:
                print(out1[-400:], out0[-400:])
        finally:
            shutil.rmtree(root, ignore_errors=True)
            shutil.rmtree(rdir, ignore_errors=True)
    print('selftest-sensitivity: %s in %.0fs' % ('OK' if not failures else '%d PROBLEMS' % failures, time.time() - t00))
    return 0 if not failures else 2
