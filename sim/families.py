"""Request generators: expression families of C06-C09 rendered as surface text, with the data each oracle needs.

A request is a plain JSON-able dict:
  {'prop', 'family', 'params', 'culture', 'text', 'lit': [start, end_inclusive], 'deciding': bool}
Everything is drawn through a Decider (sim.decider) so that one integer decides the whole workload.
"""
import calendar
import json
import os

from oracles import calendar_model as cm

DATA_DIR = os.path.join(os.path.dirname(os.path.dirname(os.path.abspath(__file__))), 'data')

WEEKDAYS = cm.WEEKDAYS
MONTHS_EN = ['january', 'february', 'march', 'april', 'may', 'june', 'july', 'august', 'september', 'october',
             'november', 'december']
MONTHS_EN_ABBR = ['jan', 'feb', 'mar', 'apr', 'may', 'jun', 'jul', 'aug', 'sep', 'oct', 'nov', 'dec']

CARRIERS_EN = ['{}', "let's meet {}", 'I will go back {}', 'the review is {} for sure', 'Can we do it {}?']
CARRIERS_EN_NOW = ['{}', 'I am leaving {}', 'Can we do it {}?', 'do it {} please']
CARRIERS_EN_DATE = ['{}', 'it happened on {}', 'I was born {} in Paris', 'the deadline is {}.', 'Schedule it for {}']
CARRIERS_EN_TIME = ['{}', "let's meet at {}", 'the alarm is set for {}', 'it starts at {} sharp']


def _load(name):
    with open(os.path.join(DATA_DIR, name), encoding='utf-8') as f:
        return json.load(f)


_cache = {}


def data(name):
    if name not in _cache:
        _cache[name] = _load(name)
    return _cache[name]


def ordinal_en(d):
    if 10 <= d % 100 <= 20:
        suf = 'th'
    else:
        suf = {1: 'st', 2: 'nd', 3: 'rd'}.get(d % 10, 'th')
    return '%d%s' % (d, suf)


def embed(dec, literal, carriers):
    c = carriers[dec.choice('carrier', len(carriers))]
    pos = c.index('{}')
    return c.replace('{}', literal), [pos, pos + len(literal) - 1]


def _case(dec, s):
    k = dec.choice('case', 6)
    if k == 0:
        return s.capitalize()
    if k == 1:
        return s.upper()
    return s


# --------------------------------------------------------------------------------------------------- C08

N_BIASED = [1, 2, 3, 6, 7, 8, 13, 14, 28, 29, 30, 31, 59, 60, 89, 90, 100, 364, 365, 366, 367, 730, 731, 999, 1000,
            1461, 3652, 4999, 5000]


def draw_n(dec):
    if dec.choice('n-biased', 3) > 0:
        return N_BIASED[dec.choice('n-idx', len(N_BIASED))]
    return 1 + dec.choice('n', 5000)


def draw_c08(dec, culture='en-us'):
    fam = ['special_day', 'ago_later', 'ago_later', 'rel_weekday', 'rel_weekday', 'rel_week', 'rel_month', 'rel_year',
           'now'][dec.choice('c08-family', 9)]
    if fam == 'special_day':
        off = dec.choice('offset', 3) - 1
        lit = {0: 'today', 1: 'tomorrow', -1: 'yesterday'}[off]
        params = {'offset': off}
    elif fam == 'ago_later':
        n = draw_n(dec)
        form = dec.choice('form', 5)
        unit = 'day' if form in (0, 2, 4) else 'week'
        noun = unit if n == 1 else unit + 's'
        if form in (0, 1):
            lit, sign = '%d %s ago' % (n, noun), -1
        elif form in (2, 3):
            lit, sign = 'in %d %s' % (n, noun), 1
        else:
            lit, sign = '%d %s from now' % (n, noun), 1
        params = {'n': n, 'unit': unit, 'sign': sign}
    elif fam == 'rel_weekday':
        swift = dec.choice('swift', 3) - 1
        wd = dec.choice('weekday', 7)
        lit = '%s %s' % ({1: 'next', -1: 'last', 0: 'this'}[swift], WEEKDAYS[wd])
        params = {'swift': swift, 'weekday': wd}
    elif fam in ('rel_week', 'rel_month', 'rel_year'):
        swift = dec.choice('swift', 3) - 1
        lit = '%s %s' % ({1: 'next', -1: 'last', 0: 'this'}[swift], fam[4:])
        params = {'swift': swift}
    else:
        lit, params = 'now', {}
    lit = _case(dec, lit)
    text, span = embed(dec, lit, CARRIERS_EN_NOW if fam == 'now' else CARRIERS_EN)
    return {'prop': 'C08', 'family': fam, 'params': params, 'culture': culture, 'text': text, 'lit': span,
            'deciding': True}


# --------------------------------------------------------------------------------------------------- C09

def draw_month_day(dec):
    k = dec.choice('md-kind', 6)
    if k == 0:
        return 2, 29
    m = 1 + dec.choice('month', 12)
    if k == 1:
        d = [1, 28, 29, 30, 31][dec.choice('edge-day', 5)]
        d = min(d, 29 if m == 2 else calendar.monthrange(2001, m)[1])
        return m, d
    dmax = 29 if m == 2 else calendar.monthrange(2001, m)[1]
    return m, 1 + dec.choice('day', dmax)


def render_md_en(dec, m, d):
    form = dec.choice('md-form', 6)
    if form == 0:
        return '%s %d' % (MONTHS_EN[m - 1], d)
    if form == 1:
        return '%s %s' % (MONTHS_EN[m - 1], ordinal_en(d))
    if form == 2:
        return '%d %s' % (d, MONTHS_EN[m - 1])
    if form == 3:
        return '%d/%d' % (m, d)
    if form == 4:
        return '%s %d' % (MONTHS_EN_ABBR[m - 1], d)
    return '%s of %s' % (ordinal_en(d), MONTHS_EN[m - 1])


def draw_c09(dec, culture='en-us', near=None):
    """near: a date to bias the stated day to (same day, +-1) — the branches the fixed-reference specs never compare."""
    if dec.choice('c09-family', 3) == 0:
        wd = dec.choice('weekday', 7)
        if near is not None and dec.choice('wd-near', 2):
            wd = (near.weekday() + dec.choice('wd-delta', 3) - 1) % 7
        lit = WEEKDAYS[wd]
        fam, params = 'weekday', {'weekday': wd}
    else:
        m, d = draw_month_day(dec)
        if near is not None and dec.choice('md-near', 2):
            import datetime as _dt
            nd = near + _dt.timedelta(days=dec.choice('md-delta', 3) - 1)
            m, d = nd.month, nd.day
        lit = render_md_en(dec, m, d)
        fam, params = 'month_day', {'month': m, 'day': d}
    lit = _case(dec, lit)
    text, span = embed(dec, lit, CARRIERS_EN_DATE if fam == 'month_day' else CARRIERS_EN)
    return {'prop': 'C09', 'family': fam, 'params': params, 'culture': culture, 'text': text, 'lit': span,
            'deciding': True}


# --------------------------------------------------------------------------------------------------- C06

def draw_abs_date(dec):
    k = dec.choice('date-kind', 8)
    y = 1900 + dec.choice('year', 200)
    if k == 0:       # leap day
        y = 1904 + 4 * dec.choice('leap-year', 49)
        return y, 2, 29
    if k == 1:       # month end
        m = 1 + dec.choice('month', 12)
        return y, m, calendar.monthrange(y, m)[1]
    if k == 2:       # d <= 12 (swap-prone)
        return y, 1 + dec.choice('month', 12), 1 + dec.choice('day12', 12)
    if k == 3:       # range edges
        return [(1900, 1, 1), (2099, 12, 31), (1999, 12, 31), (2000, 1, 1), (2000, 2, 29), (1900, 2, 28),
                (2038, 1, 19), (1970, 1, 1)][dec.choice('edge', 8)]
    m = 1 + dec.choice('month', 12)
    return y, m, 1 + dec.choice('day', calendar.monthrange(y, m)[1])


def ordinal_local(culture, d):
    """The culture's written ordinal form of a day of the month (used by the '{DordC}' layout field)."""
    lang = culture.split('-')[0]
    if lang == 'en':
        return ordinal_en(d)
    if lang in ('pt', 'es', 'it'):
        return '%dº' % d
    if lang == 'fr':
        return '1er' if d == 1 else '%d' % d
    if lang == 'nl':
        return '%de' % d
    if lang == 'de':
        return '%d.' % d
    return '%d' % d


def render_layout(layout, y, m, d, culture):
    names = data('layouts.json')['month_names'].get(culture, {})
    full = names.get('full', MONTHS_EN)
    abbr = names.get('abbr', MONTHS_EN_ABBR)
    fields = {
        'Y': '%04d' % y, 'M': '%d' % m, 'MM': '%02d' % m, 'D': '%d' % d, 'DD': '%02d' % d,
        'Dord': ordinal_en(d), 'DordC': ordinal_local(culture, d), 'Month': full[m - 1], 'Mon': abbr[m - 1],
        'MonthCap': full[m - 1].capitalize(), 'MonCap': abbr[m - 1].capitalize(),
    }
    return layout.format(**fields)


def draw_c06(dec, culture=None, near=None):
    table = data('layouts.json')['layouts']
    cultures = sorted(table)
    if culture is None:
        # English half of the time (decided exhaustively over its layouts), others share the rest
        culture = 'en-us' if dec.choice('c06-en', 2) == 0 else cultures[dec.choice('culture', len(cultures))]
    rows = [r for r in table[culture] if r['supported']]
    row = rows[dec.choice('layout', len(rows))]
    y, m, d = draw_abs_date(dec)
    if near is not None and dec.chance('anniversary', 0.15):
        # the stated date is the simulated day itself (or a neighbour) in the same or another year: where a
        # reference-relative past/future split would leak into an absolute date
        import datetime as _dt
        nd = near + _dt.timedelta(days=dec.choice('ann-delta', 3) - 1)
        yy = [near.year, 1900 + dec.choice('ann-year', 200)][dec.choice('ann-same-year', 3) > 0]
        if not (nd.month == 2 and nd.day == 29 and not calendar.isleap(yy)) and 1900 <= yy <= 2099:
            y, m, d = yy, nd.month, nd.day
    lit = render_layout(row['layout'], y, m, d, culture)
    carriers = data('layouts.json')['carriers'].get(culture, ['{}'])
    text, span = embed(dec, lit, carriers)
    return {'prop': 'C06', 'family': 'abs_date', 'params': {'y': y, 'm': m, 'd': d, 'layout': row['layout']},
            'culture': culture, 'text': text, 'lit': span, 'deciding': bool(row.get('deciding', True))}


# --------------------------------------------------------------------------------------------------- C07

BOUNDARY_MS = [0, 1, 29, 30, 31, 58, 59]


def draw_hms(dec):
    h = dec.choice('hour', 24)
    if dec.choice('ms-boundary', 2):
        m = BOUNDARY_MS[dec.choice('min-b', len(BOUNDARY_MS))]
        s = BOUNDARY_MS[dec.choice('sec-b', len(BOUNDARY_MS))]
    else:
        m, s = dec.choice('min', 60), dec.choice('sec', 60)
    return h, m, s


def draw_time(dec):
    """-> (literal, spec) where spec = {'h','m','s','has_min','has_sec','accept': [list of reading lists]}"""
    kind = dec.choice('time-kind', 6)
    if kind in (0, 1):           # 24-hour HH:MM[:SS]
        h, m, s = draw_hms(dec)
        has_sec = kind == 1
        if not has_sec:
            s = 0
        pad = dec.choice('pad', 2) == 0 or h >= 10
        lit = ('%02d' % h if pad else '%d' % h) + ':%02d' % m + (':%02d' % s if has_sec else '')
        if h == 0 or h >= 13:
            accept = [[h]]
        elif h == 12:
            accept = [[12], [12, 0]]
        else:
            accept = [[h], [h, h + 12]]
        return lit, {'h': h, 'm': m, 's': s, 'has_min': True, 'has_sec': has_sec, 'accept': accept, 'form': '24h'}
    if kind in (2, 3, 4):        # 12-hour with am/pm
        h12 = 1 + dec.choice('h12', 12)
        pm = dec.choice('pm', 2) == 1
        form = dec.choice('ampm-form', 4)
        with_min = dec.choice('with-min', 2) == 1
        m = BOUNDARY_MS[dec.choice('min-b', len(BOUNDARY_MS))] if dec.choice('ms-boundary', 2) else dec.choice('min', 60)
        if not with_min:
            m = 0
        suffix = [('am', 'pm'), (' am', ' pm'), ('AM', 'PM'), (' a.m.', ' p.m.')][form][1 if pm else 0]
        lit = ('%d:%02d' % (h12, m) if with_min else '%d' % h12) + suffix
        h = (h12 % 12) + (12 if pm else 0)
        return lit, {'h': h, 'm': m, 's': 0, 'has_min': with_min, 'has_sec': False, 'accept': [[h]], 'form': '12h-ampm'}
    # bare hour 1-12 without am/pm: exactly the two readings 12 h apart
    h12 = 1 + dec.choice('h12', 12)
    lit = ["%d o'clock" % h12, 'at %d' % h12][dec.choice('bare-form', 2)]
    second = (h12 + 12) % 24
    return lit, {'h': h12, 'm': 0, 's': 0, 'has_min': False, 'has_sec': False, 'accept': [[h12, second]],
                 'form': 'bare-hour'}


def draw_c07(dec, culture='en-us'):
    lit, spec = draw_time(dec)
    compose = dec.choice('compose', 3) == 0
    if not compose:
        if spec['form'] == 'bare-hour' and lit.startswith('at '):
            text, span = embed(dec, lit, ['{}', "let's meet {}", 'it starts {} I think'])
            span = [span[0] + 3, span[1]]
        else:
            text, span = embed(dec, lit, CARRIERS_EN_TIME)
        return {'prop': 'C07', 'family': 'time', 'params': spec, 'culture': culture, 'text': text, 'lit': span,
                'deciding': True}
    # '<date expr> at <time>': the date expression is a C06 (en-us absolute) or C08 (date-valued) literal
    if dec.choice('date-src', 2) == 0:
        y, m, d = draw_abs_date(dec)
        rows = [r for r in data('layouts.json')['layouts']['en-us'] if r['supported'] and r.get('deciding', True)]
        row = rows[dec.choice('layout', len(rows))]
        dlit = render_layout(row['layout'], y, m, d, 'en-us')
        dparams = {'kind': 'abs', 'y': y, 'm': m, 'd': d}
    else:
        k = 0
        while True:
            sub = draw_c08(dec.fork('sub%d.%d' % (dec.draws, k)))
            k += 1
            if sub['family'] in ('special_day', 'ago_later', 'rel_weekday'):
                break
        dlit = sub['text'][sub['lit'][0]:sub['lit'][1] + 1].lower()
        dparams = {'kind': 'rel', 'family': sub['family'], 'params': sub['params']}
    tl = lit[3:] if lit.startswith('at ') else lit
    full = '%s at %s' % (dlit, tl)
    text, span = embed(dec, full, ['{}', "let's meet {}", 'the call is {} as agreed'])
    return {'prop': 'C07', 'family': 'date_at_time', 'params': {'time': spec, 'date': dparams}, 'culture': culture,
            'text': text, 'lit': span, 'deciding': True}


# ------------------------------------------------------------------------------- C11 extras (shape-monitored only)

def draw_c10ish(dec, culture='en-us'):
    """Durations and absolute / reference-anchored ranges; no value oracle here, only the C11 validators."""
    k = dec.choice('c10-kind', 9)
    if k == 0:
        unit = ['second', 'minute', 'hour', 'day', 'week', 'month', 'year'][dec.choice('dur-unit', 7)]
        if dec.choice('dur-decimal', 3) == 0:
            # decimal magnitudes: one to three decimals, incl. values whose binary form is just below the decimal one
            n = [1.5, 2.5, 0.5, 1.15, 2.3, 0.29, 4.35, 8.2, 0.125, 1.1, 0.7, 16.4, 12.75, 3.333][dec.choice('dur-dec', 14)]
            lit = 'for %s %ss' % (('%g' % n), unit)
        else:
            n = [1, 2, 3, 10, 24, 36, 90, 1000][dec.choice('dur-n', 8)]
            lit = 'for %d %s%s' % (n, unit, '' if n == 1 else 's')
    elif k in (1, 2):
        y1, m1, d1 = draw_abs_date(dec)
        y2, m2, d2 = draw_abs_date(dec)
        if (y1, m1, d1) > (y2, m2, d2):
            (y1, m1, d1), (y2, m2, d2) = (y2, m2, d2), (y1, m1, d1)
        if (y1, m1, d1) == (y2, m2, d2):
            y2, m2, d2 = (y2 + 1, m2, min(d2, 28)) if y2 < 2099 else (y2, m2, d2)
            if (y1, m1, d1) == (y2, m2, d2):
                y1, d1 = y1 - 1, min(d1, 28)
        a = render_layout('{Y}-{MM}-{DD}' if k == 1 else '{Month} {D}, {Y}', y1, m1, d1, 'en-us')
        b = render_layout('{Y}-{MM}-{DD}' if k == 1 else '{Month} {D}, {Y}', y2, m2, d2, 'en-us')
        lit = ['from %s to %s', 'between %s and %s'][dec.choice('range-form', 2)] % (a, b)
    elif k == 3:
        y1, m1, d1 = draw_abs_date(dec)
        a = render_layout(['{Y}-{MM}-{DD}', '{Month} {D}, {Y}', '{M}/{D}/{Y}'][dec.choice('lay', 3)], y1, m1, d1, 'en-us')
        lit = ['from %s to today', '%s to today', 'from %s to tomorrow', 'between %s and now'][dec.choice('anch', 4)] % a
    elif k == 4:
        lit = ['earlier this week', 'later this week', 'rest of the week', 'rest of this month', 'rest of the year',
               'earlier this month', 'later this year', 'this weekend', 'last weekend', 'next weekend',
               'the past 3 days', 'next 2 weeks', 'previous 5 months', 'last 2 years', 'the coming week',
               'year to date', 'end of this month', 'beginning of next year', 'middle of last week'][dec.choice('rel-range', 19)]
    elif k == 8:
        # recurring ('set') expressions
        each = ['every', 'each'][dec.choice('set-each', 2)]
        what = ['weekend', 'today', 'tomorrow', 'monday', 'friday', 'day', 'week', 'month', 'year', 'morning', 'night',
                'day at 5pm', 'friday at 7:30pm', 'other day', '2 weeks', '3 days', 'weekday', 'sunday evening',
                'january', 'december 25'][dec.choice('set-what', 20)]
        lit = '%s %s' % (each, what)
    elif k == 7:
        # month-to-month and day-to-day ranges that share ONE trailing year
        m1 = 1 + dec.choice('rm1', 12)
        m2 = 1 + dec.choice('rm2', 12)
        if m2 == m1:
            m2 = m1 % 12 + 1
        y = 1900 + dec.choice('year', 200)
        form = dec.choice('myr-form', 5)
        if form == 0:
            lit = 'from %s to %s %d' % (MONTHS_EN[m1 - 1], MONTHS_EN[m2 - 1], y)
        elif form == 1:
            lit = '%s-%s %d' % (MONTHS_EN_ABBR[m1 - 1], MONTHS_EN_ABBR[m2 - 1], y)
        elif form == 2:
            lit = 'between %s and %s %d' % (MONTHS_EN[m1 - 1], MONTHS_EN[m2 - 1], y)
        elif form == 3:
            a, b = min(m1, m2), max(m1, m2)       # stated in calendar order: the input itself is not inverted
            lit = 'from %s %d to %s %d, %d' % (MONTHS_EN[a - 1], 1 + dec.choice('d1', 28), MONTHS_EN[b - 1], 1 + dec.choice('d2', 28), y)
        else:
            lit = 'from %s to %s of %d' % (MONTHS_EN[m1 - 1], MONTHS_EN[m2 - 1], y)
    elif k == 6:
        # a date with a time range attached; half of them run past midnight
        if dec.choice('dtr-date', 2):
            dlit = ['today', 'tomorrow', 'yesterday', 'next friday'][dec.choice('dtr-rel', 4)]
        else:
            y1, m1, d1 = draw_abs_date(dec)
            dlit = render_layout(['{Y}-{MM}-{DD}', '{Month} {D}, {Y}'][dec.choice('lay', 2)], y1, m1, d1, 'en-us')
        h1, h2 = 1 + dec.choice('h1', 12), 1 + dec.choice('h2', 12)
        a1, a2 = ['am', 'pm'][dec.choice('ap1', 2)], ['am', 'pm'][dec.choice('ap2', 2)]
        t1 = '%d%s' % (h1, a1) if dec.choice('min1', 2) else '%d:%02d%s' % (h1, dec.choice('m1', 60), a1)
        t2 = '%d%s' % (h2, a2) if dec.choice('min2', 2) else '%d:%02d%s' % (h2, dec.choice('m2', 60), a2)
        lit = ['%s from %s to %s', '%s between %s and %s', 'on %s from %s to %s'][dec.choice('dtr-form', 3)] % (dlit, t1, t2)
    else:
        m, d = draw_month_day(dec)
        m2, d2 = draw_month_day(dec)
        if (m2, d2) == (m, d):      # 'from X to X' is an empty range by construction of the input
            m2, d2 = (m % 12 + 1, min(d, 28))
        lit = 'from %s %d to %s %d' % (MONTHS_EN[m - 1], d, MONTHS_EN[m2 - 1], d2)
    text, span = embed(dec, lit, ['{}', 'I was away {}', 'show me sales {} please'])
    return {'prop': 'C11', 'family': 'c10ish', 'params': {'kind': k}, 'culture': culture, 'text': text, 'lit': span,
            'deciding': True}


def draw_nonexistent(dec, culture='en-us'):
    """Dates that do not exist: must come back as 'not resolved' or not at all, never as an invalid value."""
    y = 1900 + dec.choice('year', 200)
    m, d = [(2, 30), (2, 31), (4, 31), (6, 31), (9, 31), (11, 31), (2, 29)][dec.choice('bad-md', 7)]
    if (m, d) == (2, 29):
        while calendar.isleap(y):
            y += 1
    lay = ['{Y}-{MM}-{DD}', '{M}/{D}/{Y}', '{Month} {D}, {Y}', '{D} {Month} {Y}', '{Month} {Dord}, {Y}', '{Month} {D}',
           '{M}/{D}'][dec.choice('lay', 7)]
    lit = render_layout(lay, y, m, d, 'en-us')
    if dec.choice('with-time', 3) == 0:
        lit += ' at 5pm'
    text, span = embed(dec, lit, CARRIERS_EN_DATE)
    return {'prop': 'C11', 'family': 'nonexistent', 'params': {'y': y, 'm': m, 'd': d, 'layout': lay}, 'culture': culture,
            'text': text, 'lit': span, 'deciding': True}


# ------------------------------------------------------------------------------- context twins (history, never judged)

TIME_WORDS = ['half past eleven', 'a quarter to nine', 'noon', '11:30', '2pm', 'half past two', 'midnight', '7']


def context_twin(dec, req):
    """A different request that embeds the SAME literal as `req` in another grammatical context (a range endpoint, a
    modifier, a composition). Issued just before `req` at the same simulated instant; its own result is not judged by
    the value oracle — it only creates call history that a memo keyed too narrowly would leak through."""
    lit = req['text'][req['lit'][0]:req['lit'][1] + 1]
    fam = req['family']
    if req['prop'] == 'C07' or req.get('via') == 'C07':
        core = lit
        if fam == 'date_at_time':
            p = req['params']['time']
            core = lit.rsplit(' at ', 1)[-1]
        other = TIME_WORDS[dec.choice('tw', len(TIME_WORDS))]
        forms = ['%s to %s' % (other, core), 'from %s to %s' % (core, other), 'between %s and %s' % (other, core),
                 '%s tomorrow' % core, 'every day at %s' % core, 'before %s' % core]
    elif fam in ('abs_date', 'month_day', 'special_day', 'ago_later', 'rel_weekday', 'weekday'):
        forms = ['%s at 3:15' % lit, 'before %s' % lit, 'since %s' % lit, '%s in the evening' % lit,
                 'the week of %s' % lit, 'by %s' % lit]
        if req['prop'] != 'C11':
            # ranges with an arbitrary second endpoint may be inverted by construction: fine as history, but not
            # something the C11 shape monitor should be fed as if it were a sensible input
            forms += ['from %s to next friday' % lit, 'between yesterday and %s' % lit]
    else:
        forms = ['before %s' % lit, 'after %s' % lit, 'the first monday of %s' % lit, 'end of %s' % lit]
        if req['prop'] != 'C11':
            forms.append('from %s to next month' % lit)
    text = forms[dec.choice('ctx-form', len(forms))]
    return {'prop': req['prop'], 'family': 'context', 'params': {'of': fam}, 'culture': req['culture'], 'text': text,
            'lit': [0, len(text) - 1], 'deciding': False, 'context': True}
