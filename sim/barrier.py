"""Write barrier: attribute writes to objects reachable from cached (shared) models become scheduling points.

Installed from outside: `__setattr__` is interposed on the library's own classes (those that do not define one).
Objects are 'shared' once they are reachable from a model in the process-wide cache; the set of their ids is rebuilt
when the cache changes. Container mutation in place (dict/list) is not intercepted (see DESIGN.md §9).
"""
import sys

from .boot import MODULE_ROOTS

SHARED = {}      # id -> number of cached models it is reachable from
STATE = {'sched': None, 'hits': 0, 'sites': {}, 'installed': 0, 'walked': {}}
_ATOMIC = (str, bytes, int, float, bool, type(None), complex)
import collections as _collections
_CONTAINER_TYPES = (list, dict, set, _collections.OrderedDict, _collections.defaultdict, _collections.deque)
MAX_CLASS_POPULATION = 64     # data-structure nodes (trie Node: 4e4 per model) are not watched


def _lib_class(cls):
    mod = getattr(cls, '__module__', '') or ''
    return mod.split('.')[0] in MODULE_ROOTS


def install():
    """Interpose __setattr__ on every library class that inherits object.__setattr__."""
    if STATE['installed']:
        return STATE['installed']
    seen = set()
    n = 0
    for mname, m in list(sys.modules.items()):
        if mname.split('.')[0] not in MODULE_ROOTS or m is None:
            continue
        for v in list(vars(m).values()):
            if isinstance(v, type) and v not in seen and _lib_class(v):
                seen.add(v)
                if '__setattr__' in v.__dict__ or '__slots__' in v.__dict__:
                    continue
                if v.__setattr__ is not object.__setattr__:
                    continue
                if issubclass(v, (tuple, BaseException)) or hasattr(v, '_member_map_'):
                    continue
                try:
                    v.__setattr__ = _barrier_setattr
                    n += 1
                except (TypeError, AttributeError):
                    pass
    STATE['installed'] = n
    return n


def _barrier_setattr(self, name, value):
    object.__setattr__(self, name, value)
    if id(self) in SHARED:
        sched = STATE['sched']
        STATE['hits'] += 1
        f = sys._getframe(1)
        site = '%s:%d %s.%s' % (f.f_code.co_filename.rsplit('/', 1)[-1], f.f_lineno, type(self).__name__, name)
        STATE['sites'][site] = STATE['sites'].get(site, 0) + 1
        if sched is not None and sched.current is not None:
            client = sched.clients_by_id.get(sched.current)
            if client is not None and client.in_op:
                sched.barrier_hit(client, f)


def walk(root, into, conts=None):
    """Add ids of all library-class instances reachable from root. If `conts` is a list, also collect
    (class, container) pairs for the list/dict/set attributes of those instances."""
    stack = [root]
    seen = set()
    n = 0
    while stack:
        o = stack.pop()
        if isinstance(o, _ATOMIC):
            continue
        i = id(o)
        if i in seen:
            continue
        seen.add(i)
        if isinstance(o, dict):
            stack.extend(o.values())
            continue
        if isinstance(o, (list, tuple, set, frozenset)):
            stack.extend(o)
            continue
        cls = type(o)
        if isinstance(o, type) or not _lib_class(cls):
            continue
        into.add(i)
        n += 1
        d = getattr(o, '__dict__', None)
        if d:
            if conts is not None:
                for v in d.values():
                    if type(v) in _CONTAINER_TYPES:
                        conts.append((cls, v))
            stack.extend(d.values())
    return n


OWN = {}        # id(model) -> (model, [ids reachable from it])   (strong reference: ids cannot be reused while listed)
EVICTED = []    # models dropped from the cache since the last quiescent point (still possibly used by parked threads)


def on_cache_insert(model):
    """A model just entered the process-wide cache: everything reachable from it is shared from now on."""
    if id(model) in OWN:
        return
    ids = set()
    pairs = []
    walk(model, ids, pairs)
    OWN[id(model)] = (model, ids)
    for i in ids:
        SHARED[i] = SHARED.get(i, 0) + 1
    pop = {}
    for cls, c in pairs:
        pop[cls] = pop.get(cls, 0) + 1
    seen = set()
    watch = []
    for cls, c in pairs:
        if pop[cls] <= MAX_CLASS_POPULATION * 8 and id(c) not in seen:
            seen.add(id(c))
            watch.append(c)
    WATCH[id(model)] = watch
    rebase()


WATCH = {}          # id(model) -> containers (list/dict/set attributes of its library objects)
CLASS_WATCH = []    # class-level containers of library classes (process-wide caches live there)
FP = {'base': 0, 'flat': [], 'dirty_probes': 0, 'rebased': 0, 'hits': 0, 'slots': None, 'classes': [], 'prev_ids': []}


def _class_containers():
    out = []
    seen = set()
    for mname, m in list(sys.modules.items()):
        if mname.split('.')[0] not in MODULE_ROOTS or m is None:
            continue
        for v in list(vars(m).values()):
            if isinstance(v, type) and _lib_class(v) and v not in seen:
                seen.add(v)
                if '.resources.' in (v.__module__ or ''):
                    continue        # generated static tables
                for k, a in list(vars(v).items()):
                    if type(a) in _CONTAINER_TYPES and not (k.startswith('__') and k.endswith('__')):
                        out.append(a)
    return out


_MISSING = object()
BOOT = {'snap': None, 'slots': None, 'class_keys': None}
import types as _types
_SKIP_SLOT_TYPES = (_types.FunctionType, type, _types.ModuleType, _types.BuiltinFunctionType, staticmethod, classmethod,
                    property, _types.MemberDescriptorType, _types.GetSetDescriptorType)


def _lib_classes():
    seen = []
    have = set()
    for mname, m in list(sys.modules.items()):
        if mname.split('.')[0] not in MODULE_ROOTS or m is None:
            continue
        for v in list(vars(m).values()):
            if isinstance(v, type) and _lib_class(v) and v not in have and '.resources' not in (v.__module__ or ''):
                have.add(v)
                seen.append(v)
    return seen


def _scalar_slots():
    """(owner, key) of every class-level and module-level NON-container, non-callable attribute of the library: a
    rebinding (Cls.counter += 1, a module global reassigned, a 'current' object stored on a class) changes id(value)."""
    out = []
    for cls in _lib_classes():
        for k, a in list(vars(cls).items()):
            if (k.startswith('__') and k.endswith('__')) or k == '_abc_impl' or callable(a) or isinstance(a, _SKIP_SLOT_TYPES):
                continue
            if type(a) in _CONTAINER_TYPES:
                continue
            out.append((cls, k))
    for mname, m in list(sys.modules.items()):
        if mname.split('.')[0] not in MODULE_ROOTS or m is None or '.resources' in mname:
            continue
        for k, a in list(vars(m).items()):
            if k.startswith('__') or callable(a) or isinstance(a, _SKIP_SLOT_TYPES) or type(a) in _CONTAINER_TYPES:
                continue
            out.append((m, k))
    return out


def _module_containers():
    out = []
    for mname, m in list(sys.modules.items()):
        if mname.split('.')[0] not in MODULE_ROOTS or m is None or '.resources.' in mname or mname.endswith('.resources'):
            continue
        for k, a in list(vars(m).items()):
            if type(a) in _CONTAINER_TYPES and not (k.startswith('__') and k.endswith('__')):
                out.append(a)
    return out


def snapshot_boot_state():
    """Remember the contents of every class-level and module-level container of the library as they are right after
    import: a simulated process restart puts them back (lazily filled process-wide tables start empty again)."""
    if BOOT['snap'] is not None:
        return len(BOOT['snap'])
    if not CLASS_WATCH:
        CLASS_WATCH.extend(_class_containers())
    snap = []
    seen = set()
    for c in list(CLASS_WATCH) + _module_containers():
        if id(c) in seen:
            continue
        seen.add(id(c))
        snap.append((c, c.copy()))
    BOOT['snap'] = snap
    BOOT['slots'] = [(o, k, vars(o).get(k)) for (o, k) in _scalar_slots()]
    BOOT['class_keys'] = [(c, set(vars(c))) for c in _lib_classes()]
    return len(snap) + len(BOOT['slots'])


def restore_boot_state(skip=()):
    """-> number of containers whose contents had changed since import and were put back."""
    n = 0
    skip_ids = {id(x) for x in skip}
    for c, orig in BOOT['snap'] or ():
        if id(c) in skip_ids:
            continue
        if len(c) != len(orig) or c != orig:
            n += 1
            c.clear()
            if isinstance(c, (list, _collections.deque)):
                c.extend(orig)
            else:
                c.update(orig)
    for o, k, v in BOOT['slots'] or ():
        if vars(o).get(k, _MISSING) is not v:
            n += 1
            setattr(o, k, v)
    for c, keys in BOOT['class_keys'] or ():
        for k in [k for k in vars(c) if k not in keys and not (k.startswith('__') and k.endswith('__'))]:
            if k in ('_abc_impl', '__setattr__'):
                continue
            n += 1
            try:
                delattr(c, k)
            except (AttributeError, TypeError):
                pass
    return n


_WATCHED_TYPES = {}
_MUTATORS = {
    dict: ('__setitem__', '__delitem__', 'update', 'pop', 'popitem', 'clear', 'setdefault'),
    list: ('__setitem__', '__delitem__', 'append', 'extend', 'insert', 'pop', 'remove', 'clear', 'sort', 'reverse', '__iadd__'),
    set: ('add', 'discard', 'remove', 'pop', 'clear', 'update', '__ior__', '__iand__', '__isub__', 'difference_update',
          'intersection_update'),
}


class quiet:
    """Harness-side mutations of process tables (eviction, restart restore) are not steering points."""

    def __enter__(self):
        STATE['quiet'] = STATE.get('quiet', 0) + 1

    def __exit__(self, *a):
        STATE['quiet'] -= 1


def _table_written(table):
    if STATE.get('quiet'):
        return
    STATE['table_writes'] = STATE.get('table_writes', 0) + 1
    sched = STATE['sched']
    if sched is not None and sched.current is not None:
        client = sched.clients_by_id.get(sched.current)
        if client is not None and client.in_op:
            f = sys._getframe(2)
            site = '%s:%d (process table)' % (f.f_code.co_filename.rsplit('/', 1)[-1], f.f_lineno)
            STATE['sites'][site] = STATE['sites'].get(site, 0) + 1
            sched.barrier_hit(client, f, 'barrier')


def _watched_type(base):
    """A subclass of dict / list / set / OrderedDict / ... whose mutators report to the scheduler AFTER the write."""
    t = _WATCHED_TYPES.get(base)
    if t is not None:
        return t
    root = dict if issubclass(base, dict) else list if issubclass(base, list) else set if issubclass(base, set) else None
    if root is None:
        return None
    ns = {'__slots__': (), '_verif_watched': True}
    for name in _MUTATORS[root]:
        orig = getattr(base, name, None)
        if orig is None:
            continue

        def make(orig):
            def method(self, *a, **k):
                r = orig(self, *a, **k)
                _table_written(self)
                return r
            return method
        ns[name] = make(orig)
    try:
        t = type('Watched' + base.__name__, (base,), ns)
    except TypeError:
        ns.pop('__slots__')
        t = type('Watched' + base.__name__, (base,), ns)
    _WATCHED_TYPES[base] = t
    return t


def instrument_process_tables():
    """Replace every class-level and module-level container of the library (not its generated resources) by an
    instrumented subclass with the same contents: an in-place write to a process-wide table (same key, new value —
    invisible to size probes and to the attribute barrier) becomes a steering point right after the write.
    Every alias of the object (other modules' `from x import TABLE`, other classes) is rebound to the same wrapper."""
    if STATE.get('tables_instrumented') is not None:
        return STATE['tables_instrumented']
    owners = []      # (setter, getter-dict, key)
    for cls in _lib_classes():
        for k, a in list(vars(cls).items()):
            if type(a) in _CONTAINER_TYPES and not (k.startswith('__') and k.endswith('__')):
                owners.append((cls, k, a))
    for mname, m in list(sys.modules.items()):
        if mname.split('.')[0] not in MODULE_ROOTS or m is None or '.resources' in mname:
            continue
        for k, a in list(vars(m).items()):
            if type(a) in _CONTAINER_TYPES and not k.startswith('__'):
                owners.append((m, k, a))
    repl = {}
    n = 0
    for owner, k, a in owners:
        w = repl.get(id(a))
        if w is None:
            t = _watched_type(type(a))
            if t is None:
                continue
            try:
                if isinstance(a, _collections.defaultdict):
                    w = t(a.default_factory, a)
                else:
                    w = t(a)
            except Exception:   # noqa
                continue
            repl[id(a)] = w
        try:
            setattr(owner, k, w)
            n += 1
        except (AttributeError, TypeError):
            pass
    STATE['tables_instrumented'] = n
    STATE['_table_originals'] = [a for (_, _, a) in owners]      # keep the originals alive (ids stay unique)
    return n


def rebase():
    """Recompute the watch list; the current container sizes become the reference for change detection."""
    if not CLASS_WATCH:
        CLASS_WATCH.extend(_class_containers())
    flat = list(CLASS_WATCH)
    for w in WATCH.values():
        flat.extend(w)
    FP['flat'] = flat
    FP['prev'] = list(map(len, flat))
    FP['base'] = sum(FP['prev'])
    if FP.get('slots') is None:
        FP['slots'] = [(vars(o), k) for (o, k) in _scalar_slots()]
        FP['classes'] = [vars(c) for c in _lib_classes()]
    FP['prev_ids'] = [id(d.get(k)) for d, k in FP['slots']] + [len(d) for d in FP['classes']]


def container_dirty():
    """Did any watched shared container change size since the previous probe? (a fresh mutation of process-wide or
    cached-model state: an insertion into a class-level table, a push onto a list parked on a shared parser, ...)"""
    cur = list(map(len, FP['flat']))
    FP['tick'] = FP.get('tick', 0) + 1
    changed = cur != FP['prev']
    if not FP['tick'] & 3:          # class / module scalar slots: every fourth probe (they cost 4x the size vector)
        ids = [id(d.get(k)) for d, k in FP['slots']] + [len(d) for d in FP['classes']]
        if ids != FP['prev_ids']:
            FP['prev_ids'] = ids
            changed = True
    if not changed:
        return False
    FP['prev'] = cur
    FP['hits'] += 1
    return True


def on_evict(models):
    EVICTED.extend(models)
    STATE['dirty'] = True


def rebuild(cache, force=False):
    """Quiescent point: forget the models evicted since the last one (reference-counted, no re-walk of live models)."""
    for m in EVICTED:
        WATCH.pop(id(m), None)
        ent = OWN.pop(id(m), None)
        if ent is None:
            continue
        for i in ent[1]:
            n = SHARED.get(i, 0) - 1
            if n <= 0:
                SHARED.pop(i, None)
            else:
                SHARED[i] = n
    del EVICTED[:]
    STATE['dirty'] = False
    for m in cache.values():
        on_cache_insert(m)
    rebase()
    return len(SHARED)
