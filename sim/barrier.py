"""Write barrier: attribute writes to objects reachable from cached (shared) models become scheduling points.

Installed from outside: `__setattr__` is interposed on the library's own classes (those that do not define one).
Objects are 'shared' once they are reachable from a model in the process-wide cache; the set of their ids is rebuilt
when the cache changes. Container mutation in place (dict/list) is not intercepted (see DESIGN.md §9).
"""
import sys

from .boot import MODULE_ROOTS

SHARED = {}      # id -> number of cached models it is reachable from
STATE = {'sched': None, 'hits': 0, 'sites': {}, 'installed': 0, 'walked': {}}
_ATOMIC = (str, bytes, int, float, bool, type(None), complex)


def _lib_class(cls):
    mod = getattr(cls, '__module__', '') or ''
    return mod.split('.')[0] in MODULE_ROOTS


def install():
    """Interpose __setattr__ on every library class that inherits object.__setattr__."""
    if STATE['installed']:
        return STATE['installed']
    seen = set()
    n = 0
    for mname, m in list(sys.modules.items()):
        if mname.split('.')[0] not in MODULE_ROOTS or m is None:
            continue
        for v in list(vars(m).values()):
            if isinstance(v, type) and v not in seen and _lib_class(v):
                seen.add(v)
                if '__setattr__' in v.__dict__ or '__slots__' in v.__dict__:
                    continue
                if v.__setattr__ is not object.__setattr__:
                    continue
                if issubclass(v, (tuple, BaseException)) or hasattr(v, '_member_map_'):
                    continue
                try:
                    v.__setattr__ = _barrier_setattr
                    n += 1
                except (TypeError, AttributeError):
                    pass
    STATE['installed'] = n
    return n


def _barrier_setattr(self, name, value):
    object.__setattr__(self, name, value)
    if id(self) in SHARED:
        sched = STATE['sched']
        STATE['hits'] += 1
        f = sys._getframe(1)
        site = '%s:%d %s.%s' % (f.f_code.co_filename.rsplit('/', 1)[-1], f.f_lineno, type(self).__name__, name)
        STATE['sites'][site] = STATE['sites'].get(site, 0) + 1
        if sched is not None and sched.current is not None:
            client = sched.clients_by_id.get(sched.current)
            if client is not None and client.in_op:
                sched.barrier_hit(client, f)


def walk(root, into):
    """Add ids of all library-class instances reachable from root."""
    stack = [root]
    seen = set()
    n = 0
    while stack:
        o = stack.pop()
        if isinstance(o, _ATOMIC):
            continue
        i = id(o)
        if i in seen:
            continue
        seen.add(i)
        if isinstance(o, dict):
            stack.extend(o.values())
            continue
        if isinstance(o, (list, tuple, set, frozenset)):
            stack.extend(o)
            continue
        cls = type(o)
        if isinstance(o, type) or not _lib_class(cls):
            continue
        into.add(i)
        n += 1
        d = getattr(o, '__dict__', None)
        if d:
            stack.extend(d.values())
    return n


OWN = {}        # id(model) -> (model, [ids reachable from it])   (strong reference: ids cannot be reused while listed)
EVICTED = []    # models dropped from the cache since the last quiescent point (still possibly used by parked threads)


def on_cache_insert(model):
    """A model just entered the process-wide cache: everything reachable from it is shared from now on."""
    if id(model) in OWN:
        return
    ids = set()
    walk(model, ids)
    OWN[id(model)] = (model, ids)
    for i in ids:
        SHARED[i] = SHARED.get(i, 0) + 1


def on_evict(models):
    EVICTED.extend(models)
    STATE['dirty'] = True


def rebuild(cache, force=False):
    """Quiescent point: forget the models evicted since the last one (reference-counted, no re-walk of live models)."""
    for m in EVICTED:
        ent = OWN.pop(id(m), None)
        if ent is None:
            continue
        for i in ent[1]:
            n = SHARED.get(i, 0) - 1
            if n <= 0:
                SHARED.pop(i, None)
            else:
                SHARED[i] = n
    del EVICTED[:]
    STATE['dirty'] = False
    for m in cache.values():
        on_cache_insert(m)
    return len(SHARED)
