"""Orchestration of the clocksim checks (C06, C07, C08, C09, C11): plan, run, minimise, report, evidence."""
import json
import os
import time

from . import orchestrator as orch
from . import evidence
from .boot import VERIF_DIR, HarnessError
from .decider import derive_seed

PLAN = {   # (batches, runs per batch) — budgets are run counts, not seconds
    'quick': {'C06': (16, 70), 'C07': (16, 100), 'C08': (16, 110), 'C09': (16, 130), 'C11': (16, 60)},
    'thorough': {'C06': (96, 200), 'C07': (96, 300), 'C08': (96, 300), 'C09': (96, 300), 'C11': (96, 200)},
}
REAL = {'C06': ['recognizers_date_time (all cultures with a DateTimeModel)', 'recognizers_number', 'recognizers_text (Recognizer, ModelFactory cache)'],
        }
TITLES = {
    'C06': 'absolute dates at every simulated instant, explicit and implicit reference, under clock faults',
    'C07': 'clock times and <date> at <time> composition on a simulated timeline',
    'C08': 'relative date arithmetic against a date-only reference model on a simulated timeline',
    'C09': 'yearless dates / bare weekdays: nearest past and next future occurrence on a simulated timeline',
    'C11': 'shape + TIMEX agreement invariant on every entity of every request on a simulated timeline',
}


def batch_jobs(prop, tier, seed, batches=None, runs=None, first_batch=0):
    nb, nr = PLAN[tier][prop]
    nb = batches or nb
    nr = runs or nr
    jobs = []
    for b in range(first_batch, first_batch + nb):
        jobs.append({'kind': 'clocksim-batch', 'prop': prop, 'seed': seed, 'tier': tier, 'batch': b, 'first': b * nr,
                     'count': nr, 'hashseed': orch.hashseed_for(seed, prop, b), 'hang_dump_s': 1500})
    return jobs


def replay_in_fresh_process(prop, events, hashseed, scratch):
    rep = orch.run_jobs([{'kind': 'clocksim-replay', 'prop': prop, 'events': events, 'hashseed': hashseed}], 1, 900, scratch)[0]
    return rep['outcomes']


def reproduces(prop, events, hashseed, scratch, vclass):
    outs = replay_in_fresh_process(prop, events, hashseed, scratch)
    last = outs[-1]
    return bool(last.get('violation')) and last['violation']['class'] == vclass, last


def simplify_event(ev):
    """Candidate simplifications of one event, most aggressive first."""
    cands = []
    req = ev['req']
    lit = req['text'][req['lit'][0]:req['lit'][1] + 1]
    if req['text'] != lit:
        r2 = dict(req, text=lit, lit=[0, len(lit) - 1])
        cands.append(dict(ev, req=r2))
    if ev['mode'] == 'implicit':
        e2 = {k: v for k, v in ev.items() if k not in ('script', 'xcheck')}
        e2.update({'mode': 'explicit', 'clock': '2000-01-01T00:00:00.000013', 'dup': False, 'fault': None})
        cands.append(e2)
        if ev.get('script'):
            e3 = {k: v for k, v in ev.items() if k != 'script'}
            e3['fault'] = None
            cands.append(e3)
    if ev.get('dup'):
        cands.append(dict(ev, dup=False))
    if ev.get('xcheck'):
        cands.append(dict(ev, xcheck=False))
    t = ev['t']
    if not t.endswith('T12:00:00.000000') and 'script' not in ev:
        cands.append(dict(ev, t=t[:10] + 'T12:00:00.000000'))
    return cands


def minimise(prop, v, seed, tier, scratch, budget=40):
    """-> (events, info). Delta-debug the history that led to violation v; every candidate runs in a fresh process."""
    from . import clocksim
    hashseed = orch.hashseed_for(seed, prop, v['batch'])
    vclass = v['class']
    tried = 0
    ev = v['ev']
    ok, _ = reproduces(prop, [ev], hashseed, scratch, vclass)
    tried += 1
    if ok:
        events = [ev]
    else:
        # needs history: the run's own prefix, then the whole batch history
        ctx = clocksim.load_ctx_static(prop)
        run_events = clocksim.gen_timeline(prop, derive_seed(seed, prop, v['run']), tier, ctx)
        prefix = run_events[:v['event'] + 1]
        ok, _ = reproduces(prop, prefix, hashseed, scratch, vclass)
        tried += 1
        if not ok:
            nr = PLAN[tier][prop][1]
            hist = []
            for idx in range(v['batch'] * nr, v['run']):
                hist.extend(clocksim.gen_timeline(prop, derive_seed(seed, prop, idx), tier, ctx))
            prefix = hist + prefix
            ok, _ = reproduces(prop, prefix, hashseed, scratch, vclass)
            tried += 1
            if not ok:
                return prefix, {'minimised': False, 'reproduced': False, 'candidates': tried}
        # ddmin over the prefix (last event always kept)
        events = prefix
        n = 2
        while len(events) > 1 and tried < budget:
            head = events[:-1]
            chunk = max(1, len(head) // n)
            reduced = False
            for i in range(0, len(head), chunk):
                cand = head[:i] + head[i + chunk:] + [events[-1]]
                tried += 1
                ok, _ = reproduces(prop, cand, hashseed, scratch, vclass)
                if ok:
                    events = cand
                    n = max(n - 1, 2)
                    reduced = True
                    break
                if tried >= budget:
                    break
            if not reduced:
                if chunk == 1:
                    break
                n = min(len(head), n * 2)
    # simplify the failing event itself
    changed = True
    while changed and tried < budget:
        changed = False
        for cand in simplify_event(events[-1]):
            tried += 1
            ok, _ = reproduces(prop, events[:-1] + [cand], hashseed, scratch, vclass)
            if ok:
                events = events[:-1] + [cand]
                changed = True
                break
            if tried >= budget:
                break
    ok, last = reproduces(prop, events, hashseed, scratch, vclass)
    return events, {'minimised': True, 'reproduced': ok, 'candidates': tried + 1, 'last': last}


def write_replay(prop, seed, n, doc):
    d = os.environ.get('VERIF_REPLAY_DIR') or os.path.join(VERIF_DIR, 'replays')
    os.makedirs(d, exist_ok=True)
    path = os.path.join(d, '%s-%d-%d.json' % (prop, seed, n))
    with open(path, 'w', encoding='utf-8') as f:
        json.dump(doc, f, ensure_ascii=False, indent=1)
    return path


def run_check(prop, tier, seed, workers, batches=None, runs=None, do_minimise=True, write_evidence=True):
    t0 = time.time()
    scratch = orch.scratch_dir()
    try:
        jobs = batch_jobs(prop, tier, seed, batches, runs)
        # determinism probe: the first 20 runs of batch 0 are executed a second time in another fresh interpreter
        dup = dict(jobs[0], count=min(20, jobs[0]['count']))
        reports = orch.run_jobs(jobs + [dup], workers, 3600 if tier == 'quick' else 6 * 3600, scratch)
        dup_rep = reports.pop()
        agg = aggregate(prop, reports)
        agg['determinism'] = determinism_probe(reports[0], dup_rep)
        lines = []
        replays = []
        classes = {}
        for rep in reports:
            for v in rep['violations']:
                classes.setdefault(v['class'], v)
        for n, (vclass, v) in enumerate(sorted(classes.items())[:3]):
            if do_minimise:
                try:
                    events, info = minimise(prop, v, seed, tier, scratch)
                except Exception as e:   # noqa  minimisation is best effort: never lose the violation over it
                    events, info = [v['ev']], {'minimised': False, 'error': repr(e)}
            else:
                events, info = [v['ev']], {'minimised': False}
            doc = {'check': prop, 'engine': 'clocksim', 'seed': seed, 'tier': tier, 'class': vclass,
                   'hashseed': orch.hashseed_for(seed, prop, v['batch']),
                   'found_at': {'batch': v['batch'], 'run': v['run'], 'event': v['event']},
                   'events': events, 'failure': v['failure'], 'instants': v['instants'], 'result': v['result'],
                   'minimisation': {k: info[k] for k in info if k != 'last'}}
            path = write_replay(prop, seed, n, doc)
            replays.append(path)
            lines.append('VIOLATION property=%s replay=%s' % (prop, path))
        wall = time.time() - t0
        if write_evidence:
            write_ev(prop, tier, seed, agg, wall, len(classes), jobs, reports)
        return agg, lines, classes
    finally:
        orch.cleanup(scratch)


def determinism_probe(first, dup):
    a = dict((i, d) for i, d in first['digests'])
    bad = [i for i, d in dup['digests'] if a.get(i) != d]
    if bad and not first['violations']:
        raise HarnessError('determinism probe failed: run seeds %r gave different event logs in two fresh interpreters' % bad[:5])
    return {'seeds_run_twice': len(dup['digests']), 'mismatches': len(bad)}


def aggregate(prop, reports):
    agg = {'runs': 0, 'events': 0, 'signatures': {}, 'faults': {}, 'stats': {}, 'known': {}, 'informational': {},
           'sim_seconds': 0.0, 'span_hist': {}, 'boundary': {}, 'earliest': None, 'latest': None, 'samples': [],
           'hashseeds': [], 'stubs': None, 'digests': {}, 'reads': 0, 'cultures': []}
    for rep in reports:
        agg['runs'] += rep['runs']
        agg['events'] += rep['events']
        agg['reads'] += rep.get('reads', 0)
        for s, nt in rep['signatures'].items():
            agg['signatures'][s] = agg['signatures'].get(s, False) or nt
        for k in ('faults', 'stats', 'known', 'informational', 'span_hist', 'boundary'):
            for a, b in rep[k].items():
                agg[k][a] = agg[k].get(a, 0) + b
        agg['sim_seconds'] += rep['sim_seconds']
        for key, f in (('earliest', min), ('latest', max)):
            if rep[key] is not None:
                agg[key] = rep[key] if agg[key] is None else f(agg[key], rep[key])
        if rep['samples'] and len(agg['samples']) < 3:
            agg['samples'].append(rep['samples'][0])
        agg['hashseeds'].append(rep.get('hashseed'))
        agg['stubs'] = rep.get('stubs')
        agg['cultures'] = rep.get('cultures')
        for idx, d in rep['digests']:
            agg['digests'][idx] = d
    return agg


def write_ev(prop, tier, seed, agg, wall, nviol, jobs, reports):
    distinct_nt = sum(1 for v in agg['signatures'].values() if v)
    cov = {
        'evaluations': agg['runs'],
        'distinct_nontrivial': distinct_nt,
        'rule': 'one evaluation = one simulated timeline (12-70 requests against warm models under the simulated clock). '
                'A case = (expression family or spec id, culture, explicit/implicit reference, boundary class of the instant, clock fault); '
                'non-trivial = the oracle depends on the instant (relative families, reference-anchored specs) or a clock fault fired. '
                'distinct_nontrivial counts distinct non-trivial cases; distinct cases in total: %d' % len(agg['signatures']),
        'samples': agg['samples'],
        'requests': agg['events'],
        'runs_per_hour': int(agg['runs'] / max(wall, 1e-6) * 3600),
        'requests_per_hour': int(agg['events'] / max(wall, 1e-6) * 3600),
        'seeds': {'VERIF_SEED': seed, 'run_indices': [jobs[0]['first'], jobs[-1]['first'] + jobs[-1]['count'] - 1],
                  'count': agg['runs'], 'derivation': 'run_seed = blake2b(VERIF_SEED, property, index)'},
        'simulated_time': {'total_seconds_covered': agg['sim_seconds'], 'total_years_covered': round(agg['sim_seconds'] / 31557600.0, 1),
                           'per_run_span_histogram': agg['span_hist'], 'earliest_instant': agg['earliest'],
                           'latest_instant': agg['latest']},
        'faults_fired': agg['faults'],
        'probes': dict(agg['stats'], boundary_classes_hit=agg['boundary'], clock_reads=agg['reads']),
        'known_findings_hit': agg['known'],
        'informational_rows': agg['informational'],
        'hash_seeds': sorted(set(h for h in agg['hashseeds'] if h is not None)),
        'components': {'real': ['recognizers_date_time', 'recognizers_number', 'recognizers_number_with_unit', 'recognizers_text (Recognizer, ModelFactory process-wide cache, public recognize_datetime path)',
                                'regex', 'cultures: ' + ','.join(agg['cultures'] or [])],
                       'stub': ['wall clock (SimDateTime seam)', 'datedelta (%s)' % (agg['stubs'] or {}).get('datedelta'), 'discrete-event timeline']},
        'what': TITLES[prop],
        'determinism_selftest': agg.get('determinism'),
        'seeds_per_hour': int(agg['runs'] / max(wall, 1e-6) * 3600),
    }
    assumptions = ['the library reads the wall clock only through datetime.now()/today()/utcnow() of the class bound at import (verified: 0 other clock sources in an AST scan of the tree)',
                   'value oracles are reference models written from the property statement with datetime.date only; expression and layout tables are static data committed under /verif/data']
    evidence.write(prop, tier, seed, 'exploration', cov, assumptions, wall, nviol)
