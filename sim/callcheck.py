"""Orchestration of the callsim checks (C02, C17): golden tables, batches, minimisation, replay, evidence."""
import copy
import json
import os
import time

from . import orchestrator as orch
from . import evidence, callsim, lib
from .boot import VERIF_DIR, HarnessError
from .decider import Decider, derive_seed

PLAN = {   # (batches, runs per batch)
    'quick': {'C02': (15, 54), 'C17': (15, 48)},
    'thorough': {'C02': (96, 200), 'C17': (96, 200)},
}
N_GOLDEN_JOBS = 16


def partition_groups(tuples, n):
    groups = {}
    for t in tuples:
        groups.setdefault(callsim.group_of(t), []).append(t)
    weight = lambda g: (3.0 if g[0] == 'DateTime' else 0.2) + len(groups[g]) * (0.04 if g[0] == 'DateTime' else 0.004)
    bins = [[0.0, []] for _ in range(n)]
    for g in sorted(groups, key=lambda g: -weight(g)):
        b = min(bins, key=lambda b: b[0])
        b[0] += weight(g)
        b[1].extend(groups[g])
    return [b[1] for b in bins if b[1]]


def compute_golden(tuples, seed, label, workers, scratch, cold_budget=40):
    """Two pristine passes under different orders / hash seeds. -> (golden dict, disagreements list)."""
    parts = partition_groups(tuples, N_GOLDEN_JOBS)
    jobs = []
    for i, part in enumerate(parts):
        jobs.append({'kind': 'callsim-golden', 'pass': 'A', 'tuples': part, 'hashseed': orch.hashseed_for(seed, label, 'A%d' % i)})
    for i, part in enumerate(parts):
        jobs.append({'kind': 'callsim-golden', 'pass': 'B', 'tuples': part, 'cold_budget': cold_budget,
                     'hashseed': orch.hashseed_for(seed, label, 'B%d' % i)})
    reps = orch.run_jobs(jobs, workers, 3600, scratch)
    A, B, cold = {}, {}, {}
    reads = 0
    for j, r in zip(jobs, reps):
        (A if j['pass'] == 'A' else B).update(r['golden'])
        cold.update(r['cold'])
        reads += r.get('clock_reads', 0)
    by_key = {t['key']: t for t in tuples}
    part_of = {}
    for i, part in enumerate(parts):
        for t in part:
            part_of[t['key']] = i
    dis = []
    for k in sorted(A):
        if A[k] != B.get(k):
            dis.append({'tuple': by_key[k], 'kind': 'cached-public-path-vs-fresh-uncached-model', 'a': A[k], 'b': B.get(k),
                        'history': parts[part_of[k]]})
        elif k in cold and cold[k] != A[k]:
            dis.append({'tuple': by_key[k], 'kind': 'warm-vs-cold-model', 'a': A[k], 'b': cold[k], 'history': parts[part_of[k]]})
    return A, dis, {'golden_jobs': len(jobs), 'cold_rechecks': len(cold), 'golden_clock_reads': reads}


def golden_pair(tuples, seed, label, scratch, cold_budget=10 ** 6):
    """Pass A and pass B over exactly this ordered tuple list (one job each). -> (A, B, cold)"""
    jobs = [{'kind': 'callsim-golden', 'pass': 'A', 'tuples': tuples, 'hashseed': orch.hashseed_for(seed, label, 'A')},
            {'kind': 'callsim-golden', 'pass': 'B', 'tuples': tuples, 'cold_budget': cold_budget,
             'hashseed': orch.hashseed_for(seed, label, 'B')}]
    ra, rb = orch.run_jobs(jobs, 2, 3600, scratch)
    return ra['golden'], rb['golden'], rb['cold']


def golden_disagrees(tuples, key, seed, scratch):
    a, b, cold = golden_pair(tuples, seed, 'golden-replay', scratch)
    return a.get(key) != b.get(key) or (key in cold and cold[key] != a.get(key))


def minimise_golden(d, seed, scratch, budget=14):
    """Shrink the tuple history of a golden-pass disagreement (the failing tuple is always kept)."""
    key = d['tuple']['key']
    hist = list(d['history'])
    tried = 0
    if golden_disagrees([d['tuple']], key, seed, scratch):
        return [d['tuple']], 1
    n = 2
    while len(hist) > 2 and tried < budget:
        chunk = max(1, len(hist) // n)
        reduced = False
        for i in range(0, len(hist), chunk):
            cand = [t for j, t in enumerate(hist) if not (i <= j < i + chunk) or t['key'] == key]
            tried += 1
            if len(cand) < len(hist) and golden_disagrees(cand, key, seed, scratch):
                hist = cand
                n = max(2, n - 1)
                reduced = True
                break
            if tried >= budget:
                break
        if not reduced:
            if chunk == 1:
                break
            n = min(len(hist), n * 2)
    return hist, tried


def build_probes(all_specs):
    """C17 probe queries per kind: the first two Specs inputs of every culture + option-sensitive date-time inputs."""
    probes = {}
    per = {}
    for s in all_specs:
        per.setdefault((s['kind'], s['culture'], s['opt']), []).append(s)
    for (kind, culture, opt), ss in sorted(per.items()):
        take = ss[:2] if opt == 0 else ss[:3]
        for s in take:
            lst = probes.setdefault(kind, [])
            q = {'query': s['query'], 'ref': s['ref'] if kind == 'DateTime' else None}
            if kind == 'DateTime' and not q['ref']:
                q['ref'] = callsim.DEFAULT_DT_REF
            if any(p['query'] == q['query'] and p['ref'] == q['ref'] for p in lst):
                continue
            q['key'] = 'probe|%s|%d' % (kind, len(lst))
            lst.append(q)
    extra = [('DateTime', 'from 5 to 7 tomorrow at 4pm'), ('DateTime', "I'll leave from 2 to 4pm next monday"),
             ('DateTime', 'tomorrow at 5pm and next week'), ('DateTime', 'mañana a las 5 de la tarde y la semana que viene'),
             ('DateTime', 'demain à 17h et la semaine prochaine'), ('DateTime', 'morgen um 17 uhr und nächste woche'),
             ('DateTime', '明天下午5点和下周'), ('DateTime', 'amanhã às 17h e na próxima semana'),
             ('DateTime', 'domani alle 17 e la prossima settimana'), ('DateTime', 'morgen om 17 uur en volgende week')]
    for kind, q in extra:
        lst = probes.setdefault(kind, [])
        lst.append({'query': q, 'ref': callsim.DEFAULT_DT_REF, 'key': 'probe|%s|%d' % (kind, len(lst)), 'strong': True})
    # option-sensitive English inputs (established against the pinned tree: they separate options 0,1,2,3 and 4)
    for q, r in [('schedule a meeting from 5pm to 7pm tomorrow', '2016-11-07T00:00:00'), ("I'm blocked for the day", '2016-11-07T16:12:00'),
                 ('Change my meeting from 9am to 11am', '2016-11-07T00:00:00'), ('I left yesterday at 12', '2017-12-18T00:00:00')]:
        lst = probes.setdefault('DateTime', [])
        lst.append({'query': q, 'ref': r, 'key': 'probe|DateTime|%d' % len(lst), 'strong': True})
    return probes


def compute_probe_golden(probes, registered, seed, workers, scratch):
    groups = []
    for kind, pairs in sorted(registered.items()):
        if kind not in probes:
            continue
        for (mt, c) in pairs:
            for o in (callsim.DT_OPTS if kind == 'DateTime' else [0]):
                groups.append([kind, c, o])
    bins = [[] for _ in range(16)]
    dt = [g for g in groups if g[0] == 'DateTime']
    rest = [g for g in groups if g[0] != 'DateTime']
    for i, g in enumerate(dt):
        bins[i % 16].append(g)
    for i, g in enumerate(rest):
        bins[(i + 7) % 16].append(g)
    jobs = [{'kind': 'callsim-probes', 'groups': b, 'probes': probes, 'hashseed': orch.hashseed_for(seed, 'probes', i)}
            for i, b in enumerate(bins) if b]
    reps = orch.run_jobs(jobs, workers, 3600, scratch)
    out = {}
    for r in reps:
        out.update(r['probes'])
    # which pairs of keys can the probes tell apart?
    indist = []
    keys = sorted(out)
    for i, a in enumerate(keys):
        for b in keys[i + 1:]:
            if a.split('|')[0] == b.split('|')[0] and out[a] == out[b]:
                indist.append([a, b])
    return out, indist


def prepare(prop, tier, seed, workers, scratch):
    t0 = time.time()
    reg = orch.run_jobs([{'kind': 'callsim-registered', 'hashseed': 0}], 1, 600, scratch)[0]
    registered = {k: [tuple(x) for x in v] for k, v in reg['pairs'].items()}
    pool = callsim.build_pool(seed, tier, registered)
    golden, dis, ginfo = compute_golden(pool, seed, prop + '-golden', workers, scratch)
    ctx = {'pool_list': pool, 'golden': golden, 'registered': {k: [list(x) for x in v] for k, v in registered.items()},
           'supported': reg['supported'], 'probes': {}, 'probe_golden': {}, 'step_cap': 5_000_000}
    with open(os.path.join(VERIF_DIR, 'data', 'step_estimates.json'), encoding='utf-8') as f:
        ctx['step_estimate'] = json.load(f)['steps']
    info = dict(ginfo)
    if prop == 'C17':
        specs = [callsim.norm_tuple(s) for s in lib.load_model_specs()]
        probes = build_probes(specs)
        pg, indist = compute_probe_golden(probes, registered, seed, workers, scratch)
        ctx['probes'], ctx['probe_golden'] = probes, pg
        info['indistinguishable_model_pairs'] = indist
        info['probe_models'] = len(pg)
    path = os.path.join(scratch, 'ctx-%s.json' % prop)
    with open(path, 'w', encoding='utf-8') as f:
        json.dump(ctx, f, ensure_ascii=False)
    info['prepare_s'] = round(time.time() - t0, 1)
    info['pool'] = len(pool)
    return ctx, path, dis, info


def batch_jobs(prop, tier, seed, ctx_file, batches=None, runs=None):
    nb, nr = PLAN[tier][prop]
    nb, nr = batches or nb, runs or nr
    jobs = []
    for b in range(nb):
        # import placement: in every other batch the library is imported on a short-lived worker thread, so the main
        # thread keeps Python's default decimal context (what a lazily importing web worker sees)
        jobs.append({'kind': 'callsim-batch', 'prop': prop, 'seed': seed, 'tier': tier, 'batch': b, 'first': b * nr,
                     'count': nr, 'ctx_file': ctx_file, 'hashseed': orch.hashseed_for(seed, prop, b),
                     'import_on_thread': b % 2 == 1, 'hang_dump_s': 3000})
    return jobs


# ------------------------------------------------------------------------------------------------ minimisation

def involved_tuples(runs, ctx_pool):
    keys = set()
    for item in runs:
        for c in item['plan']['clients']:
            for o in c['ops']:
                if o['op'] == 'call':
                    keys.add(o['tuple'])
    return [ctx_pool[k] for k in sorted(keys)]


def replay_runs(prop, runs, hashseed, import_on_thread, ctx_file, scratch, prewarm=None):
    rep = orch.run_jobs([{'kind': 'callsim-replay', 'prop': prop, 'runs': runs, 'ctx_file': ctx_file, 'hashseed': hashseed,
                          'import_on_thread': import_on_thread, 'hang_dump_s': 1500, 'prewarm': prewarm}], 1, 2400, scratch)[0]
    return rep['outcomes']


def _reproduces(prop, runs, v, hashseed, iot, ctx_file, scratch):
    outs = replay_runs(prop, runs, hashseed, iot, ctx_file, scratch)
    last = outs[-1]
    return any(x['class'] == v['class'] for x in last['violations']), last


def _shrink_plan_candidates(plan, recorded, cid, op_idx):
    """Yield (plan, recorded, new cid, new op_idx) candidates, most aggressive first."""
    # 1. only the failing client, only the failing op
    c = plan['clients'][cid]
    one = copy.deepcopy(plan)
    one['clients'] = [dict(copy.deepcopy(c), cid=0, ops=[copy.deepcopy(c['ops'][op_idx])])]
    ck = ({'cache_keys': recorded.get('cache_keys'), 'cache_origins': recorded.get('cache_origins')}
          if recorded and recorded.get('cache_keys') is not None else None)
    yield one, ck, 0, 0
    # 2. only the failing client
    onec = copy.deepcopy(plan)
    onec['clients'] = [dict(copy.deepcopy(c), cid=0)]
    yield onec, ck, 0, op_idx
    # 3. drop one other client at a time
    if len(plan['clients']) > 1:
        for drop in range(len(plan['clients'])):
            if drop == cid:
                continue
            p = copy.deepcopy(plan)
            keep = [x for x in p['clients'] if x['cid'] != drop]
            remap = {x['cid']: i for i, x in enumerate(keep)}
            for x in keep:
                x['cid'] = remap[x['cid']]
            p['clients'] = keep
            rec = None
            if recorded:
                rec = {'first': remap.get(recorded.get('first', 0), 0), 'cache_keys': recorded.get('cache_keys'), 'cache_origins': recorded.get('cache_origins'),
                       'switches': [[remap[s[0]], s[1], s[2], remap[s[3]], s[4], s[5]] for s in (recorded.get('switches') or [])
                                    if s[0] in remap and s[3] in remap],
                       'finishes': [[remap[f[0]], remap.get(f[1])] for f in (recorded.get('finishes') or []) if f[0] in remap],
                       'faults_fired': [[remap[f[0]]] + list(f[1:]) for f in (recorded.get('faults_fired') or []) if f[0] in remap]}
                if recorded.get('switches') is None:
                    rec = ck
            yield p, rec, remap[cid], op_idx
    # 4. drop ops after the failing one, then ops of other clients one at a time (schedule re-generated)
    for x in plan['clients']:
        for i in range(len(x['ops']) - 1, -1, -1):
            if x['cid'] == cid and i == op_idx:
                continue
            p = copy.deepcopy(plan)
            del p['clients'][x['cid']]['ops'][i]
            if not p['clients'][x['cid']]['ops']:
                continue
            nidx = (op_idx - 1 if x['cid'] == cid and i < op_idx else op_idx)
            if recorded and recorded.get('switches') is not None:
                # keep the recorded schedule: drop the switches taken inside the removed op, renumber later ops
                sw = []
                for s_ in recorded['switches']:
                    s2 = list(s_)
                    if s2[0] == x['cid']:
                        if s2[1] == i:
                            continue
                        if s2[1] > i:
                            s2[1] -= 1
                    sw.append(s2)
                ff = []
                for f_ in recorded.get('faults_fired') or []:
                    f2 = list(f_)
                    if f2[0] == x['cid']:
                        if f2[1] == i:
                            continue
                        if f2[1] > i:
                            f2[1] -= 1
                    ff.append(f2)
                yield p, dict(recorded, switches=sw, faults_fired=ff), cid, nidx
            yield p, ck, cid, nidx
    # 5. drop faults, fresh-thread flags, clock steps, cold start
    for x in plan['clients']:
        for i, o in enumerate(x['ops']):
            for field in ('fault', 'fresh_thread', 'clock'):
                if field in o:
                    p = copy.deepcopy(plan)
                    del p['clients'][x['cid']]['ops'][i][field]
                    yield p, recorded, cid, op_idx
    if plan.get('cold'):
        p = copy.deepcopy(plan)
        p['cold'] = False
        yield p, recorded, cid, op_idx
    # 6. fewer switches
    if recorded and recorded.get('switches'):
        n = len(recorded['switches'])
        # halves, quarters, ... then single switches (only for short schedules: a lockstep run records 10^5 switches)
        k = 2
        while n // k >= 1 and k <= 16:
            size = n // k
            for i in range(0, n, size):
                rec = dict(recorded, switches=recorded['switches'][:i] + recorded['switches'][i + size:])
                yield plan, rec, cid, op_idx
            k *= 2
        if n <= 24:
            for i in range(n):
                rec = dict(recorded, switches=recorded['switches'][:i] + recorded['switches'][i + 1:])
                yield plan, rec, cid, op_idx


def _reproduce_many(prop, cands, v, hashseed, iot, ctx_file, scratch, workers):
    """Run every candidate (a list of runs) in its own fresh process, in parallel. -> list of bool."""
    jobs = [{'kind': 'callsim-replay', 'prop': prop, 'runs': runs, 'ctx_file': ctx_file, 'hashseed': hashseed,
             'import_on_thread': iot, 'hang_dump_s': 1500, 'prewarm': v.get('prewarm')} for runs in cands]
    reps = orch.run_jobs(jobs, workers, 2400, scratch)
    return [any(x['class'] == v['class'] for x in r['outcomes'][-1]['violations']) for r in reps]


def small_ctx_file(ctx, runs, scratch, tag):
    """A context file restricted to the tuples a candidate history uses (workers load it in milliseconds)."""
    keys = {o['tuple'] for item in runs for c in item['plan']['clients'] for o in c['ops'] if o['op'] == 'call'}
    small = dict(ctx)
    small['pool_list'] = [t for t in ctx['pool_list'] if t['key'] in keys]
    small['golden'] = {k: ctx['golden'][k] for k in keys if k in ctx['golden']}
    path = os.path.join(scratch, 'ctx-min-%s.json' % tag)
    with open(path, 'w', encoding='utf-8') as f:
        json.dump(small, f, ensure_ascii=False)
    return path


def minimise(prop, v, seed, tier, ctx, ctx_file, scratch, budget=45, workers=16):
    """Delta debugging, one round = all candidates of the current state tried in parallel (each in a fresh process);
    the most aggressive reproducing candidate wins the round."""
    hashseed = orch.hashseed_for(seed, prop, v['batch'])
    iot = v['batch'] % 2 == 1
    tried = 0
    cur = {'plan': v['plan'], 'recorded': v['recorded']}
    cid, op_idx = v['cid'], v['op_idx']
    history = []
    small = small_ctx_file(ctx, [cur], scratch, 'a')
    ok = _reproduce_many(prop, [[cur]], v, hashseed, iot, small, scratch, workers)[0]
    tried += 1
    if not ok:
        # needs the batch history before it: regenerate the earlier plans of this batch from the seed
        nr = PLAN[tier][prop][1]
        wctx = worker_like_ctx(prop, ctx, seed, v['batch'])
        for idx in range(v['batch'] * nr, v['run']):
            history.append({'plan': callsim.gen_plan(prop, derive_seed(seed, prop, idx), tier, wctx), 'recorded': None})
        ok = _reproduce_many(prop, [history + [cur]], v, hashseed, iot, ctx_file, scratch, workers)[0]
        tried += 1
        if not ok:
            return history + [cur], {'minimised': False, 'reproduced': False, 'candidates': tried}
        # halve the history while it still reproduces (all halves/quarters of a round in parallel)
        n = 2
        while history and tried < budget:
            chunk = max(1, len(history) // n)
            cands = [history[:i] + history[i + chunk:] for i in range(0, len(history), chunk)]
            oks = _reproduce_many(prop, [c + [cur] for c in cands], v, hashseed, iot, ctx_file, scratch, workers)
            tried += len(cands)
            hit = [c for c, o in zip(cands, oks) if o]
            if hit:
                history = min(hit, key=len)
                n = max(2, n - 1)
            else:
                if chunk == 1:
                    break
                n = min(len(history), n * 2)
    rounds = 0
    t_start = time.time()
    while rounds < 6 and time.time() - t_start < 240:      # wall-clock guard only: minimisation is best effort
        rounds += 1
        import itertools
        cands = list(itertools.islice(_shrink_plan_candidates(cur['plan'], cur['recorded'], cid, op_idx), 32))
        if not cands:
            break
        small = small_ctx_file(ctx, history + [{'plan': c[0]} for c in cands] + [cur], scratch, 'r%d' % rounds)
        oks = _reproduce_many(prop, [history + [{'plan': c[0], 'recorded': c[1]}] for c in cands], v, hashseed, iot, small, scratch, workers)
        tried += len(cands)
        pick = next((c for c, o in zip(cands, oks) if o), None)
        if pick is None:
            break
        cur, cid, op_idx = {'plan': pick[0], 'recorded': pick[1]}, pick[2], pick[3]
    small = small_ctx_file(ctx, history + [cur], scratch, 'z')
    ok = _reproduce_many(prop, [history + [cur]], v, hashseed, iot, small, scratch, workers)[0]
    return history + [cur], {'minimised': True, 'reproduced': ok, 'candidates': tried + 1, 'rounds': rounds}


def worker_like_ctx(prop, ctx, seed, batch):
    """The per-batch context a worker derives (date-time focus), reproduced in the orchestrator for plan regeneration."""
    w = dict(ctx)
    w['pool'] = {t['key']: t for t in ctx['pool_list']}
    groups = {}
    for t in ctx['pool_list']:
        groups.setdefault(callsim.group_of(t), []).append(t['key'])
    w['groups'] = groups
    bdec = Decider(derive_seed(seed, prop, 'batch', batch))
    dt_groups = sorted({(g[1], g[2]) for g in groups if g[0] == 'DateTime'})
    if prop == 'C17':
        w['dt_focus'] = callsim.c17_dt_focus(bdec, ctx['registered']['DateTime'])
    else:
        w['dt_focus'] = set(bdec.sample('dt-focus', dt_groups, 3)) | {('en-us', 0)}
    w['p_heavy'] = 0.25
    w['no_restart'] = bdec.choice('long-uptime', 2) == 0
    return w


def write_replay(prop, seed, n, doc):
    d = os.environ.get('VERIF_REPLAY_DIR') or os.path.join(VERIF_DIR, 'replays')
    os.makedirs(d, exist_ok=True)
    path = os.path.join(d, '%s-%d-%d.json' % (prop, seed, n))
    with open(path, 'w', encoding='utf-8') as f:
        json.dump(doc, f, ensure_ascii=False, indent=1)
    return path


# ------------------------------------------------------------------------------------------------ check

def run_check(prop, tier, seed, workers, batches=None, runs=None, do_minimise=True, write_evidence=True):
    t0 = time.time()
    scratch = orch.scratch_dir()
    try:
        ctx, ctx_file, dis, info = prepare(prop, tier, seed, workers, scratch)
        t_prep = time.time() - t0
        lines, classes = [], {}
        n_rep = 0
        if prop == 'C02':
            for d in dis[:3]:
                vclass = 'C02|%s|%s|golden-%s' % (d['tuple']['kind'], d['tuple']['culture'], d['kind'])
                if vclass in classes:
                    continue
                hist, tried = (minimise_golden(d, seed, scratch) if do_minimise and n_rep == 0 else (d['history'], 0))
                d = {k: v for k, v in d.items() if k != 'history'}
                classes[vclass] = {'failure': d}
                path = write_replay(prop, seed, n_rep, {'check': prop, 'engine': 'callsim', 'mode': 'golden', 'seed': seed,
                                                        'class': vclass, 'tuples': hist, 'key': d['tuple']['key'], 'failure': d,
                                                        'minimisation': {'candidates': tried, 'history': len(hist)}})
                n_rep += 1
                lines.append('VIOLATION property=%s replay=%s' % (prop, path))
        jobs = batch_jobs(prop, tier, seed, ctx_file, batches, runs)
        # determinism probe: the first 20 runs of batch 0 are executed a second time in another fresh interpreter
        dup = dict(jobs[0], count=min(20, jobs[0]['count']))
        reports = orch.run_jobs(jobs + [dup], workers, 2 * 3600 if tier == 'quick' else 8 * 3600, scratch)
        dup_rep = reports.pop()
        agg = aggregate(reports)
        agg['phase_s'] = {'prepare': round(t_prep, 1), 'through_batches': round(time.time() - t0, 1)}
        agg['batch_wall_s'] = [(r.get('batch_wall_s'), r.get('job_wall_s')) for r in reports] + [('dup', dup_rep.get('batch_wall_s'), dup_rep.get('job_wall_s'))]
        agg['slowest_runs'] = sorted((x for r in reports for x in r.get('slowest_runs', [])), reverse=True)[:6]
        a0 = dict((i, d) for i, d in reports[0]['digests'])
        bad = [i for i, d in dup_rep['digests'] if a0.get(i) != d]
        if bad and not reports[0]['violations']:
            raise HarnessError('determinism probe failed: run seeds %r gave different event logs in two fresh interpreters' % bad[:5])
        agg['determinism'] = {'seeds_run_twice': len(dup_rep['digests']), 'mismatches': len(bad)}
        agg['golden_disagreements'] = len(dis)
        agg['info'] = info
        found = {}
        for rep in reports:
            for v in rep['violations']:
                found.setdefault(v['class'], v)
        for n_class, (vclass, v) in enumerate(sorted(found.items())[:3]):
            if do_minimise and n_class == 0:      # one fully minimised replay; further classes are reported as found
                try:
                    runs_min, minfo = minimise(prop, v, seed, tier, ctx, ctx_file, scratch, workers=workers)
                except Exception as e:   # noqa  minimisation is best effort: never lose the violation over it
                    runs_min, minfo = [{'plan': v['plan'], 'recorded': v['recorded']}], {'minimised': False, 'error': repr(e)}
            else:
                runs_min, minfo = [{'plan': v['plan'], 'recorded': v['recorded']}], {'minimised': False}
            doc = {'check': prop, 'engine': 'callsim', 'mode': 'runs', 'seed': seed, 'tier': tier, 'class': vclass,
                   'hashseed': orch.hashseed_for(seed, prop, v['batch']), 'import_on_thread': v['batch'] % 2 == 1,
                   'found_at': {'batch': v['batch'], 'run': v['run'], 'client': v['cid'], 'op': v['op_idx']},
                   'prewarm': v.get('prewarm'),
                   'runs': runs_min, 'tuples': involved_tuples(runs_min, {t['key']: t for t in ctx['pool_list']}),
                   'failure': v['failure'], 'minimisation': {k: minfo[k] for k in minfo if k != 'last'}}
            path = write_replay(prop, seed, n_rep, doc)
            n_rep += 1
            lines.append('VIOLATION property=%s replay=%s' % (prop, path))
            classes[vclass] = v
        wall = time.time() - t0
        agg['summary'] = 'runs=%d ops=%d checked_ops=%d steps=%d switches=%d lock_switches=%d distinct_runs=%d faults=%s golden_pool=%d' % (
            agg['runs'], agg['ops'], agg['checked_ops'], agg['steps'], agg['switches'], agg['lock_switches'], len(agg['signatures']),
            json.dumps(agg['faults'], sort_keys=True), info['pool'])
        if write_evidence:
            write_ev(prop, tier, seed, agg, wall, len(classes), jobs)
        return agg, lines, classes
    finally:
        orch.cleanup(scratch)


SUM_KEYS = ('runs', 'ops', 'steps', 'switches', 'barrier_hits', 'dirty_hits', 'sweeps', 'bursts', 'lock_switches', 'long_uptime_batch', 'double_ctor', 'capped', 'clock_reads_in_explicit_calls',
            'cold_runs', 'restarts', 'faulted_ops', 'checked_ops', 'swallowed_abort')
DICT_KEYS = ('faults', 'known', 'sites', 'barrier_sites', 'ctor', 'placements', 'threads', 'sched_kinds', 'culture_classes',
             'get_outcomes')


def aggregate(reports):
    agg = {k: 0 for k in SUM_KEYS}
    agg.update({k: {} for k in DICT_KEYS})
    agg.update({'signatures': {}, 'samples': [], 'hashseeds': [], 'digests': {}, 'stubs': None, 'dt_focus': [],
                'barrier_classes': 0, 'observed_steps': {}})
    for rep in reports:
        for k in SUM_KEYS:
            agg[k] += rep.get(k, 0)
        for k in DICT_KEYS:
            for a, b in rep.get(k, {}).items():
                agg[k][a] = agg[k].get(a, 0) + b
        for s, nt in rep['signatures'].items():
            agg['signatures'][s] = agg['signatures'].get(s, False) or nt
        if rep['samples'] and len(agg['samples']) < 2:
            agg['samples'].append(rep['samples'][0])
        agg['hashseeds'].append(rep.get('hashseed'))
        agg['stubs'] = rep.get('stubs')
        agg['barrier_classes'] = rep.get('barrier_classes', 0)
        agg['dt_focus'].append(rep.get('dt_focus'))
        for idx, d in rep['digests']:
            agg['digests'][idx] = d
        for k, (n, s) in rep.get('observed_steps', {}).items():
            o = agg['observed_steps'].setdefault(k, [0, 0])
            o[0] += n
            o[1] += s
    return agg


def write_ev(prop, tier, seed, agg, wall, nviol, jobs):
    nt = sum(1 for v in agg['signatures'].values() if v)
    cov = {
        'evaluations': agg['runs'],
        'distinct_nontrivial': nt,
        'rule': 'one evaluation = one simulated run (1-4 caller threads x 1-8 ops under the baton scheduler). Distinct = hash of '
                '(ordered op kinds and tuple ids per client, placement, cold/warm start, switch sequence as (from, to, file:line), faults fired); '
                'non-trivial = >= 2 clients with >= 1 pre-emption inside a library call, or >= 1 fault fired, or a repeated / twin query. '
                'Distinct runs in total: %d' % len(agg['signatures']),
        'samples': agg['samples'] or [{'note': 'no multi-client run with a switch in this (tiny) batch'}],
        'ops': agg['ops'], 'checked_ops': agg['checked_ops'], 'faulted_ops': agg['faulted_ops'],
        'steps': agg['steps'], 'switches': agg['switches'],
        'runs_per_hour': int(agg['runs'] / max(wall, 1e-6) * 3600),
        'seeds': {'VERIF_SEED': seed, 'run_indices': [jobs[0]['first'], jobs[-1]['first'] + jobs[-1]['count'] - 1],
                  'count': agg['runs'], 'derivation': 'run_seed = blake2b(VERIF_SEED, property, index)'},
        'simulated_time': 'not applicable to callsim: logical steps only (%d line-granular steps); the simulated wall clock is displaced at random before ops and must be irrelevant' % agg['steps'],
        'faults_fired': agg['faults'],
        'probes': {'write_barrier_hits': agg['barrier_hits'], 'shared_container_dirty_probe_hits': agg['dirty_hits'], 'library_lock_contention_switches': agg['lock_switches'], 'write_barrier_sites': agg['barrier_sites'],
                   'write_barrier_classes_interposed': agg['barrier_classes'],
                   'constructions_per_key': agg['ctor'], 'runs_with_double_construction': agg['double_ctor'],
                   'clock_reads_during_explicit_reference_calls': agg['clock_reads_in_explicit_calls'],
                   'cold_start_runs': agg['cold_runs'], 'fault_sweep_runs': agg['sweeps'], 'burst_runs': agg['bursts'], 'long_uptime_batches': agg['long_uptime_batch'], 'restarts': agg['restarts'], 'step_capped_runs': agg['capped'],
                   'swallowed_faults': agg['swallowed_abort'], 'thread_placements': agg['placements'],
                   'clients_per_run': agg['threads'], 'scheduler_kinds': agg['sched_kinds'],
                   'golden_disagreements': agg.get('golden_disagreements', 0),
                   'observed_mean_steps_per_call': {k: int(v[1] / max(1, v[0])) for k, v in agg['observed_steps'].items()},
                   'culture_string_classes': agg['culture_classes'], 'get_outcomes': agg['get_outcomes']},
        'preemption_sites': {'distinct': len(agg['sites']), 'top': sorted(agg['sites'].items(), key=lambda x: -x[1])[:15]},
        'known_findings_hit': agg['known'],
        'hash_seeds': sorted(set(h for h in agg['hashseeds'] if h is not None)),
        'golden': agg.get('info'), 'batch_wall_s': agg.get('batch_wall_s'), 'phase_s': agg.get('phase_s'), 'slowest_runs': agg.get('slowest_runs'),
        'determinism_selftest': agg.get('determinism'),
        'seeds_per_hour': int(agg['runs'] / max(wall, 1e-6) * 3600),
        'components': {'real': ['recognizers_text (Recognizer, ModelFactory, Culture)', 'recognizers_number', 'recognizers_number_with_unit',
                                'recognizers_date_time', 'recognizers_sequence', 'recognizers_choice', 'regex', 'real OS threads (decimal context and thread-locals are per thread)'],
                       'stub': ['thread scheduler (baton passing, line-granular pre-emption)', 'wall clock (SimDateTime seam)',
                                'datedelta (%s)' % (agg['stubs'] or {}).get('datedelta'), 'grapheme (%s)' % (agg['stubs'] or {}).get('grapheme')]},
    }
    assumptions = ['C-level calls (regex matching, dict operations) are atomic steps; pre-emption is line-granular in files of the library packages (not resources/)',
                   'the golden table is a memo of the CURRENT tree built by pristine sequential processes (two passes, two hash seeds, cached public path vs fresh uncached models): the property is "same answer everywhere", not "right answer"',
                   'in-place mutation of shared containers is seen only through its consequences, not intercepted']
    evidence.write(prop, tier, seed, 'exploration', cov, assumptions, wall, nviol)


# ------------------------------------------------------------------------------------------------ replay

def replay_main(prop, doc, path, scratch):
    seed = doc.get('seed', 0)
    tuples = doc['tuples']
    if doc.get('mode') == 'golden':
        if golden_disagrees(tuples, doc.get('key') or tuples[-1]['key'], seed, scratch):
            print('reproduced: the cached public path and a fresh uncached model (other order, other hash seed) disagree on %r' % doc.get('key'))
            print('VIOLATION property=%s replay=%s' % (prop, path))
            return 1
        print('not reproduced on this tree (golden passes agree)')
        return 0
    golden, dis, _ = compute_golden(tuples, seed, prop + '-replay-golden', 4, scratch, cold_budget=len(tuples))
    reg = orch.run_jobs([{'kind': 'callsim-registered', 'hashseed': 0}], 1, 600, scratch)[0]
    ctx = {'pool_list': tuples, 'golden': golden, 'registered': reg['pairs'], 'supported': reg['supported'],
           'probes': {}, 'probe_golden': {}, 'step_cap': 5_000_000, 'step_estimate': {}}
    if prop == 'C17':
        specs = [callsim.norm_tuple(s) for s in lib.load_model_specs()]
        probes = build_probes(specs)
        pg, _ = compute_probe_golden(probes, {k: [tuple(x) for x in v] for k, v in reg['pairs'].items()}, seed, 8, scratch)
        ctx['probes'], ctx['probe_golden'] = probes, pg
    ctx_file = os.path.join(scratch, 'ctx-replay.json')
    with open(ctx_file, 'w', encoding='utf-8') as f:
        json.dump(ctx, f, ensure_ascii=False)
    outs = replay_runs(prop, doc['runs'], doc.get('hashseed', 0), doc.get('import_on_thread', False), ctx_file, scratch,
                       doc.get('prewarm'))
    last = outs[-1]
    hit = [x for x in last['violations'] if x['class'] == doc['class']]
    if hit:
        print('reproduced: %s' % json.dumps(hit[0]['failure'], ensure_ascii=False)[:600])
        print('VIOLATION property=%s replay=%s' % (prop, path))
        return 1
    print('not reproduced on this tree (class %s); divergent schedule entries: %d' % (doc['class'], last['divergent']))
    return 0
