"""selftest-determinism: the same run seeds executed twice, at another worker count and under another PYTHONHASHSEED
(fresh interpreters every time) must give identical event-log digests."""
import time

from . import orchestrator as orch
from . import clockcheck, callcheck


def _digests(reports):
    out = {}
    for r in reports:
        for idx, d in r['digests']:
            out[idx] = d
    return out


def _compare(name, a, b):
    bad = [i for i in sorted(a) if a[i] != b.get(i)]
    print('  %-46s %d seeds, %d mismatches%s' % (name, len(a), len(bad), (' first=%r' % bad[:5]) if bad else ''))
    return len(bad)


def main(seed, workers, n_batches=8, n_runs=15):
    t0 = time.time()
    scratch = orch.scratch_dir()
    bad = 0
    try:
        for prop in ('C08', 'C11', 'C06'):
            jobs = clockcheck.batch_jobs(prop, 'quick', seed, n_batches, n_runs)
            a = _digests(orch.run_jobs(jobs, workers, 1800, scratch))
            b = _digests(orch.run_jobs(jobs, max(2, workers // 4), 1800, scratch))
            j2 = [dict(j, hashseed=(j['hashseed'] + 12345) % 4294967295) for j in jobs]
            c = _digests(orch.run_jobs(j2, workers, 1800, scratch))
            print('clocksim %s' % prop)
            bad += _compare('same seeds twice, %d vs %d workers' % (workers, max(2, workers // 4)), a, b)
            bad += _compare('same seeds under another PYTHONHASHSEED', a, c)
        for prop in ('C02', 'C17'):
            ctx, ctx_file, dis, info = callcheck.prepare(prop, 'quick', seed, workers, scratch)
            jobs = callcheck.batch_jobs(prop, 'quick', seed, ctx_file, n_batches, n_runs)
            a = _digests(orch.run_jobs(jobs, workers, 3600, scratch))
            b = _digests(orch.run_jobs(jobs, max(2, workers // 4), 3600, scratch))
            j2 = [dict(j, hashseed=(j['hashseed'] + 12345) % 4294967295) for j in jobs]
            c = _digests(orch.run_jobs(j2, workers, 3600, scratch))
            print('callsim %s (digest = switch list + finish order + faults fired + every op result)' % prop)
            bad += _compare('same seeds twice, %d vs %d workers' % (workers, max(2, workers // 4)), a, b)
            bad += _compare('same seeds under another PYTHONHASHSEED', a, c)
    finally:
        orch.cleanup(scratch)
    print('selftest-determinism: %s in %.0fs' % ('OK' if not bad else '%d MISMATCHES' % bad, time.time() - t0))
    return 0 if not bad else 2
