import regex as _regex


def slice(string, start=None, end=None):
    """Grapheme-cluster aware slice (UAX-29 via regex's \\X), as grapheme.api.slice."""
    return ''.join(_regex.findall(r'\X', string)[start:end])
