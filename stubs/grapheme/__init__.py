"""Stand-in for the `grapheme` package (not installable here). Only grapheme.api.slice is used by the tree."""
VERIF_STUB = True
