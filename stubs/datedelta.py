"""Stand-in for aaugustin/datedelta (not installable in this sandbox: in no wheelhouse, no network).

Semantics follow the package's documented behaviour: years, then months are applied to the
calendar fields; when the target day does not exist the result is THE FIRST DAY OF THE
FOLLOWING MONTH (README: date(2020, 1, 31) + datedelta(months=1) == date(2020, 3, 1),
date(2020, 2, 29) + datedelta(years=1) == date(2021, 3, 1)); days are applied last.
This directory is appended LAST to sys.path so a real datedelta wins if one is installed.
"""
import calendar
import datetime as _dt

__all__ = ['datedelta']
VERIF_STUB = True


class datedelta:
    __slots__ = ('_years', '_months', '_days')

    def __init__(self, *, years=0, months=0, days=0):
        for name, v in (('years', years), ('months', months), ('days', days)):
            if int(v) != v:
                raise ValueError('%s must be an integer value' % name)
        self._years, self._months, self._days = int(years), int(months), int(days)

    years = property(lambda self: self._years)
    months = property(lambda self: self._months)
    days = property(lambda self: self._days)

    def __repr__(self):
        return 'datedelta(years=%d, months=%d, days=%d)' % (self._years, self._months, self._days)

    def __eq__(self, other):
        if isinstance(other, datedelta):
            return (self._years, self._months, self._days) == (other._years, other._months, other._days)
        return NotImplemented

    def __ne__(self, other):
        r = self.__eq__(other)
        return r if r is NotImplemented else not r

    def __hash__(self):
        return hash((self._years, self._months, self._days))

    def __add__(self, other):
        if isinstance(other, datedelta):
            return datedelta(years=self._years + other._years, months=self._months + other._months,
                             days=self._days + other._days)
        return NotImplemented

    def __sub__(self, other):
        if isinstance(other, datedelta):
            return datedelta(years=self._years - other._years, months=self._months - other._months,
                             days=self._days - other._days)
        return NotImplemented

    def __neg__(self):
        return datedelta(years=-self._years, months=-self._months, days=-self._days)

    def __pos__(self):
        return self

    def __mul__(self, other):
        if isinstance(other, int):
            return datedelta(years=self._years * other, months=self._months * other, days=self._days * other)
        return NotImplemented

    __rmul__ = __mul__

    def __radd__(self, other):
        if not isinstance(other, _dt.date):
            return NotImplemented
        year, month, day = other.year, other.month, other.day
        if self._years:
            year += self._years
        if self._months:
            dy, m0 = divmod(month - 1 + self._months, 12)
            year += dy
            month = m0 + 1
        if self._years or self._months:
            if day > 28 and day > calendar.monthrange(year, month)[1]:
                day = 1
                month += 1
                if month == 13:
                    month = 1
                    year += 1
            other = other.replace(year=year, month=month, day=day)
        if self._days:
            other = other + _dt.timedelta(days=self._days)
        return other

    def __rsub__(self, other):
        if isinstance(other, _dt.date):
            return other + (-self)
        return NotImplemented
