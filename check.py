#!/venv/bin/python
"""Single entry point of the verification machinery.

  check.py <property> [--tier quick|thorough] [--seed N] [--workers N]     run a check (writes evidence/<id>.json)
  check.py <property> --replay <file>                                      replay a recorded violation
  check.py selftest-determinism | selftest-sensitivity                     framework self-tests

exit 0 = the property held on everything explored (known findings printed as KNOWN-FINDING lines)
exit 1 = VIOLATION property=<id> replay=<path>
exit 2 = harness / infrastructure failure (never reported as a violation, never as success)
"""
import argparse
import json
import os
import sys
import traceback

sys.path.insert(0, os.path.dirname(os.path.abspath(__file__)))
os.environ.setdefault('PYTHONDONTWRITEBYTECODE', '1')
sys.dont_write_bytecode = True

from sim.boot import HarnessError  # noqa: E402

CLOCK_PROPS = ('C06', 'C07', 'C08', 'C09', 'C11')
CALL_PROPS = ('C02', 'C17')
DEFAULT_SEED = {'quick': 20261003, 'thorough': 20261004}


def known_lines(prop, hit):
    from oracles import known
    out = []
    for k in known.load():
        if k['property'] == prop and hit.get(k['id']):
            out.append('KNOWN-FINDING: property=%s %s: %s (hit %d times in this run)' % (prop, k['id'], k['what'], hit[k['id']]))
    return out


def main(argv=None):
    ap = argparse.ArgumentParser()
    ap.add_argument('target')
    ap.add_argument('--tier', default=os.environ.get('VERIF_TIER') or 'quick', choices=['quick', 'thorough'])
    ap.add_argument('--seed', type=int, default=None)
    ap.add_argument('--workers', type=int, default=int(os.environ.get('VERIF_WORKERS') or (os.cpu_count() or 4)))
    ap.add_argument('--replay', default=None)
    ap.add_argument('--batches', type=int, default=None)
    ap.add_argument('--runs', type=int, default=None)
    ap.add_argument('--no-minimise', action='store_true')
    ap.add_argument('--no-evidence', action='store_true')
    a = ap.parse_args(argv)
    seed = a.seed
    if seed is None:
        env = os.environ.get('VERIF_SEED')
        seed = int(env) if env not in (None, '') else DEFAULT_SEED[a.tier]
    print('check=%s tier=%s VERIF_SEED=%d workers=%d' % (a.target, a.tier, seed, a.workers), flush=True)
    try:
        if a.target.startswith('selftest'):
            from sim import selftest
            return selftest.main(a.target, seed, a.workers)
        if a.replay:
            from sim import replay
            return replay.main(a.target, a.replay)
        if a.target in CLOCK_PROPS:
            from sim import clockcheck
            agg, lines, classes = clockcheck.run_check(a.target, a.tier, seed, a.workers, a.batches, a.runs,
                                                       not a.no_minimise, not a.no_evidence)
            for ln in known_lines(a.target, agg['known']):
                print(ln)
            print('runs=%d requests=%d distinct_cases=%d faults=%s' % (agg['runs'], agg['events'], len(agg['signatures']),
                                                                        json.dumps(agg['faults'], sort_keys=True)))
        elif a.target in CALL_PROPS:
            from sim import callcheck
            agg, lines, classes = callcheck.run_check(a.target, a.tier, seed, a.workers, a.batches, a.runs,
                                                      not a.no_minimise, not a.no_evidence)
            for ln in known_lines(a.target, agg.get('known', {})):
                print(ln)
            print(agg.get('summary', ''))
        else:
            print('unknown target %r (claimed: %s)' % (a.target, ', '.join(CLOCK_PROPS + CALL_PROPS)))
            return 2
        for ln in lines:
            print(ln)
        if lines:
            for c, v in sorted(classes.items()):
                print('  class %s: %s' % (c, json.dumps(v['failure'], ensure_ascii=False)[:400]))
            return 1
        print('OK property=%s held on everything explored' % a.target)
        return 0
    except HarnessError as e:
        print('HARNESS-ERROR %s' % e)
        return 2
    except Exception:
        traceback.print_exc()
        print('HARNESS-ERROR unexpected exception in the orchestrator')
        return 2


if __name__ == '__main__':
    sys.exit(main())
