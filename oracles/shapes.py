"""C11 validators: every resolution value has the shape its type promises and agrees with a fully definite TIMEX.

check_entity(entity) -> list of failure dicts (empty = fine). `entity` is canonical
[text, start, end, type_name, resolution]. Pure standard library; no import of the library under test.
"""
import re
from datetime import date, datetime, timedelta

RE_DATE = re.compile(r'^(\d{4})-(\d{2})-(\d{2})$')
RE_TIME = re.compile(r'^(\d{2}):(\d{2}):(\d{2})$')
RE_DATETIME = re.compile(r'^(\d{4})-(\d{2})-(\d{2}) (\d{2}):(\d{2}):(\d{2})$')
RE_TX_DATE = re.compile(r'^(\d{4})-(\d{2})-(\d{2})$')
RE_TX_TIME = re.compile(r'^T(\d{2})(?::(\d{2}))?(?::(\d{2}))?$')
RE_TX_DATETIME = re.compile(r'^(\d{4})-(\d{2})-(\d{2})T(\d{2})(?::(\d{2}))?(?::(\d{2}))?$')
RE_TX_MONTH = re.compile(r'^(\d{4})-(\d{2})$')
RE_TX_YEAR = re.compile(r'^(\d{4})$')
RE_TX_WEEK = re.compile(r'^(\d{4})-W(\d{2})$')
RE_TX_DUR = re.compile(r'^P(?:(\d+(?:\.\d+)?)W)?(?:(\d+(?:\.\d+)?)D)?(?:T(?:(\d+(?:\.\d+)?)H)?(?:(\d+(?:\.\d+)?)M)?(?:(\d+(?:\.\d+)?)S)?)?$')
RE_TX_RANGE = re.compile(r'^\(([^,()]+),([^,()]+),([^,()]+)\)$')
NOT_RESOLVED = 'not resolved'


def parse_date(s):
    m = RE_DATE.match(s) if isinstance(s, str) else None
    if not m:
        return None
    try:
        return date(int(m.group(1)), int(m.group(2)), int(m.group(3)))
    except ValueError:
        return None


def parse_time(s):
    m = RE_TIME.match(s) if isinstance(s, str) else None
    if not m:
        return None
    h, mi, se = int(m.group(1)), int(m.group(2)), int(m.group(3))
    if h > 23 or mi > 59 or se > 59:
        return None
    return (h, mi, se)


def parse_datetime(s):
    m = RE_DATETIME.match(s) if isinstance(s, str) else None
    if not m:
        return None
    try:
        return datetime(*[int(x) for x in m.groups()])
    except ValueError:
        return None


def _num(s):
    try:
        return float(s)
    except (TypeError, ValueError):
        return None


def definite_duration_seconds(tx):
    """Seconds of a duration TIMEX made only of fixed-length units (W, D, H, M, S); None otherwise."""
    m = RE_TX_DUR.match(tx) if isinstance(tx, str) else None
    if not m or tx in ('P', 'PT'):
        return None
    w, d, h, mi, s = [float(x) if x else 0.0 for x in m.groups()]
    return w * 604800 + d * 86400 + h * 3600 + mi * 60 + s


def tx_time_to_value(m):
    return '%s:%s:%s' % (m.group(1), m.group(2) or '00', m.group(3) or '00')


def tx_datetime_to_value(m):
    return '%s-%s-%s %s:%s:%s' % (m.group(1), m.group(2), m.group(3), m.group(4), m.group(5) or '00', m.group(6) or '00')


def check_value(type_name, v):
    out = []

    def bad(kind, **kw):
        d = {'kind': kind, 'value': v}
        d.update(kw)
        out.append(d)

    if not isinstance(v, dict):
        bad('value-not-a-dict')
        return out
    t = v.get('type')
    if not isinstance(t, str):
        bad('missing-type')
        return out
    if type_name != 'datetimeV2.' + t:
        bad('type-name-mismatch', type_name=type_name)
    tx = v.get('timex')
    has_mod = 'Mod' in v
    if t == 'date':
        val = v.get('value')
        if val != NOT_RESOLVED and parse_date(val) is None:
            bad('invalid-date')
        if isinstance(tx, str) and RE_TX_DATE.match(tx):
            if parse_date(tx) is None:
                if val != NOT_RESOLVED:
                    bad('nonexistent-date-resolved')
            elif val != tx:
                bad('value-differs-from-definite-timex')
    elif t == 'time':
        val = v.get('value')
        if val != NOT_RESOLVED and parse_time(val) is None:
            bad('invalid-time')
        m = RE_TX_TIME.match(tx) if isinstance(tx, str) else None
        if m and int(m.group(1)) <= 23 and val != tx_time_to_value(m):
            bad('value-differs-from-definite-timex')
    elif t == 'datetime':
        val = v.get('value')
        if val != NOT_RESOLVED and parse_datetime(val) is None:
            bad('invalid-datetime')
        m = RE_TX_DATETIME.match(tx) if isinstance(tx, str) else None
        if m and int(m.group(4)) <= 23:
            if parse_date('%s-%s-%s' % m.group(1, 2, 3)) is None:
                if val != NOT_RESOLVED:
                    bad('nonexistent-date-resolved')
            elif val != tx_datetime_to_value(m):
                bad('value-differs-from-definite-timex')
    elif t == 'duration':
        val = v.get('value')
        n = _num(val)
        if val != NOT_RESOLVED and (n is None or n < 0 or n != n or n in (float('inf'),)):
            bad('invalid-duration')
        secs = definite_duration_seconds(tx)
        if secs is not None and n is not None and abs(n - secs) > 1e-6 * max(1.0, secs):
            bad('value-differs-from-definite-timex', expected_seconds=secs)
    elif t in ('daterange', 'timerange', 'datetimerange'):
        parse = {'daterange': parse_date, 'timerange': parse_time, 'datetimerange': parse_datetime}[t]
        if 'value' in v and 'start' not in v and 'end' not in v:
            if v['value'] != NOT_RESOLVED:
                bad('invalid-range-value')
            return out
        if 'start' not in v and 'end' not in v:
            bad('range-without-endpoints')
        ends = {}
        for k in ('start', 'end'):
            if k in v:
                ends[k] = parse(v[k])
                if ends[k] is None:
                    bad('invalid-range-' + k)
        if t == 'daterange' and ends.get('start') and ends.get('end') and not ends['start'] < ends['end']:
            bad('date-range-start-not-before-end')
        if not has_mod and isinstance(tx, str) and ends.get('start') and ends.get('end'):
            if t == 'daterange':
                # week / month / year TIMEXes do not pin the endpoints ('later this week' is a sub-range of
                # 2019-W22 by design), so only explicit (start,end,duration) TIMEXes must EQUAL the value; a definite
                # week / month / year TIMEX must still name an existing period that CONTAINS the value
                exp = None
                period = None
                m = RE_TX_MONTH.match(tx)
                if m and 1 <= int(m.group(2)) <= 12 and 1 <= int(m.group(1)) <= 9998:
                    y, mo = int(m.group(1)), int(m.group(2))
                    period = (date(y, mo, 1), date(y + (mo == 12), mo % 12 + 1, 1))
                m = RE_TX_YEAR.match(tx)
                if m and 1 <= int(m.group(1)) <= 9998:
                    period = (date(int(m.group(1)), 1, 1), date(int(m.group(1)) + 1, 1, 1))
                m = RE_TX_WEEK.match(tx)
                if m and 1 <= int(m.group(1)) <= 9998:
                    try:
                        mon = date.fromisocalendar(int(m.group(1)), int(m.group(2)), 1)
                        period = (mon, mon + timedelta(days=7))
                    except ValueError:
                        bad('timex-names-nonexistent-week')
                if period is not None and not (period[0] <= ends['start'] and ends['end'] <= period[1]):
                    bad('value-outside-definite-timex-period', period=[str(period[0]), str(period[1])])
                m = RE_TX_RANGE.match(tx)
                if m:
                    s, e = parse_date(m.group(1)), parse_date(m.group(2))
                    if s and e:
                        exp = (s, e)
                if exp is not None and (ends['start'], ends['end']) != exp:
                    bad('value-differs-from-definite-timex', expected=[str(exp[0]), str(exp[1])])
            else:
                m = RE_TX_RANGE.match(tx)
                if m:
                    if t == 'timerange':
                        ms, me = RE_TX_TIME.match(m.group(1)), RE_TX_TIME.match(m.group(2))
                        if ms and me and int(ms.group(1)) <= 23 and int(me.group(1)) <= 23:
                            if (v['start'], v['end']) != (tx_time_to_value(ms), tx_time_to_value(me)):
                                bad('value-differs-from-definite-timex')
                    else:
                        ms, me = RE_TX_DATETIME.match(m.group(1)), RE_TX_DATETIME.match(m.group(2))
                        if ms and me and int(ms.group(4)) <= 23 and int(me.group(4)) <= 23:
                            if (v['start'], v['end']) != (tx_datetime_to_value(ms), tx_datetime_to_value(me)):
                                bad('value-differs-from-definite-timex')
    elif t == 'set':
        pass
    return out


def check_entity(e):
    """-> list of failures for one canonical entity."""
    type_name, res = e[3], e[4]
    if res is None:
        return []          # nothing emitted; unresolved entities are counted as a probe, judged by C07/C08 oracles
    if not isinstance(res, dict) or not isinstance(res.get('values'), list):
        return [{'kind': 'resolution-shape', 'value': res}]
    out = []
    for v in res['values']:
        out.extend(check_value(type_name, v))
    return out
