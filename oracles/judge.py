"""Oracles for C06-C09: compare the entities the library returned for a generated request with the reference model.

judge(req, ents, R) -> None if the property holds for this request at reference instant R, else a failure dict
{'kind': ..., 'detail': ...}. `ents` is the canonical result list ([text, start, end, type_name, resolution]).
Nothing here imports the library under test.
"""
from . import calendar_model as cm


def overlapping(ents, lit):
    return [e for e in ents if not (e[2] < lit[0] or e[1] > lit[1])]


def expected_for(req, R):
    """-> (type_name, [acceptable value lists])"""
    fam, p = req['family'], req['params']
    if req['prop'] == 'C08':
        t, v = cm.c08_expected(fam, p, R)
        return t, [v]
    if req['prop'] == 'C09':
        t, v = cm.c09_expected(fam, p, R)
        return t, [v]
    if req['prop'] == 'C06':
        t, v = cm.c06_expected(p['y'], p['m'], p['d'])
        return t, [v]
    if req['prop'] == 'C07':
        if fam == 'time':
            return 'datetimeV2.time', [cm.c07_time_readings(p['h'], p['m'], p['s'], p['has_min'], p['has_sec'], rd)
                                       for rd in p['accept']]
        tp, dp = p['time'], p['date']
        if dp['kind'] == 'abs':
            ds = '%04d-%02d-%02d' % (dp['y'], dp['m'], dp['d'])
        else:
            ds = cm.c08_date_of(dp['family'], dp['params'], R)
        return 'datetimeV2.datetime', [cm.c07_datetime_readings(ds, tp['h'], tp['m'], tp['s'], tp['has_min'],
                                                                tp['has_sec'], rd) for rd in tp['accept']]
    raise KeyError(req['prop'])


def judge(req, ents, R):
    type_name, accepts = expected_for(req, R)
    lit = req['lit']
    hits = overlapping(ents, lit)
    if len(hits) != 1:
        return {'kind': 'entity-count', 'detail': {'overlapping': len(hits), 'expected': accepts[0], 'got': hits}}
    e = hits[0]
    if req['prop'] == 'C07' and req['family'] == 'time' and e[1] != lit[0]:
        return {'kind': 'entity-start', 'detail': {'start': e[1], 'literal_start': lit[0], 'got': e}}
    if e[3] != type_name:
        return {'kind': 'type-name', 'detail': {'expected': type_name, 'got': e[3], 'entity': e}}
    res = e[4]
    if not isinstance(res, dict) or not isinstance(res.get('values'), list):
        return {'kind': 'unresolved', 'detail': {'expected': accepts[0], 'got': res}}
    if res['values'] not in accepts:
        return {'kind': 'wrong-value', 'detail': {'expected': accepts[0], 'got': res['values']}}
    return None
