"""Reference models of calendar arithmetic, written from the property statements with datetime.date only.

Each function returns the list of expected resolution value dicts (in order) for a reference instant R
(a datetime) — nothing here imports the library under test.
"""
import calendar
from datetime import date, datetime, timedelta

WEEKDAYS = ['monday', 'tuesday', 'wednesday', 'thursday', 'friday', 'saturday', 'sunday']


def fmt_date(d):
    return '%04d-%02d-%02d' % (d.year, d.month, d.day)


def fmt_time(h, m, s):
    return '%02d:%02d:%02d' % (h, m, s)


def date_value(d):
    s = fmt_date(d)
    return {'timex': s, 'type': 'date', 'value': s}


def monday_of(d):
    return d - timedelta(days=d.weekday())


def iso_week_timex(monday):
    iso = monday.isocalendar()
    return '%04d-W%02d' % (iso[0], iso[1])


def shift_month(y, m, k):
    idx = y * 12 + (m - 1) + k
    return idx // 12, idx % 12 + 1


def is_leap(y):
    return calendar.isleap(y)


# --------------------------------------------------------------------------------------------------- C08

def c08_expected(family, params, R):
    """-> (type_name, [value dicts])"""
    d = R.date()
    if family == 'special_day':           # today / tomorrow / yesterday
        return 'datetimeV2.date', [date_value(d + timedelta(days=params['offset']))]
    if family == 'ago_later':             # N days|weeks ago / in N days|weeks / N days from now
        n = params['n'] * (7 if params['unit'] == 'week' else 1)
        return 'datetimeV2.date', [date_value(d + timedelta(days=n * params['sign']))]
    if family == 'rel_weekday':           # next/last/this <weekday>
        target = monday_of(d) + timedelta(days=7 * params['swift'] + params['weekday'])
        return 'datetimeV2.date', [date_value(target)]
    if family == 'rel_week':
        start = monday_of(d) + timedelta(days=7 * params['swift'])
        return 'datetimeV2.daterange', [{'timex': iso_week_timex(start), 'type': 'daterange',
                                          'start': fmt_date(start), 'end': fmt_date(start + timedelta(days=7))}]
    if family == 'rel_month':
        y, m = shift_month(d.year, d.month, params['swift'])
        y2, m2 = shift_month(y, m, 1)
        return 'datetimeV2.daterange', [{'timex': '%04d-%02d' % (y, m), 'type': 'daterange',
                                          'start': fmt_date(date(y, m, 1)), 'end': fmt_date(date(y2, m2, 1))}]
    if family == 'rel_year':
        y = d.year + params['swift']
        return 'datetimeV2.daterange', [{'timex': '%04d' % y, 'type': 'daterange',
                                          'start': fmt_date(date(y, 1, 1)), 'end': fmt_date(date(y + 1, 1, 1))}]
    if family == 'now':
        return 'datetimeV2.datetime', [{'timex': 'PRESENT_REF', 'type': 'datetime',
                                         'value': fmt_date(d) + ' ' + fmt_time(R.hour, R.minute, R.second)}]
    raise KeyError(family)


def c08_date_of(family, params, R):
    """The single date a C08 *date* family denotes at R (used for '<date> at <time>' composition)."""
    _, vals = c08_expected(family, params, R)
    return vals[0]['value']


# --------------------------------------------------------------------------------------------------- C09

def occurrences_md(month, day, d):
    """(latest occurrence strictly before date d, earliest occurrence on or after d) of month/day."""
    def valid(y):
        try:
            return date(y, month, day)
        except ValueError:
            return None
    past = None
    y = d.year
    while past is None:
        c = valid(y)
        if c is not None and c < d:
            past = c
        y -= 1
    fut = None
    y = d.year
    while fut is None:
        c = valid(y)
        if c is not None and c >= d:
            fut = c
        y += 1
    return past, fut


def c09_expected(family, params, R):
    d = R.date()
    if family == 'month_day':
        past, fut = occurrences_md(params['month'], params['day'], d)
        tx = 'XXXX-%02d-%02d' % (params['month'], params['day'])
    elif family == 'weekday':
        wd = params['weekday']          # 0 = Monday
        delta = (d.weekday() - wd) % 7
        past = d - timedelta(days=delta if delta else 7)
        fut = d + timedelta(days=(wd - d.weekday()) % 7)
        tx = 'XXXX-WXX-%d' % (wd + 1)
    else:
        raise KeyError(family)
    return 'datetimeV2.date', [{'timex': tx, 'type': 'date', 'value': fmt_date(past)},
                               {'timex': tx, 'type': 'date', 'value': fmt_date(fut)}]


# --------------------------------------------------------------------------------------------------- C06

def c06_expected(y, m, d):
    s = '%04d-%02d-%02d' % (y, m, d)
    return 'datetimeV2.date', [{'timex': s, 'type': 'date', 'value': s}]


# --------------------------------------------------------------------------------------------------- C07

def time_timex(h, m, s, has_min, has_sec):
    t = 'T%02d' % h
    if has_min or has_sec:
        t += ':%02d' % m
    if has_sec:
        t += ':%02d' % s
    return t


def c07_time_readings(h, m, s, has_min, has_sec, readings):
    """readings: list of hours (24h) in order. -> list of value dicts for a bare time."""
    return [{'timex': time_timex(hh, m, s, has_min, has_sec), 'type': 'time', 'value': fmt_time(hh, m, s)}
            for hh in readings]


def c07_datetime_readings(date_str, h, m, s, has_min, has_sec, readings):
    return [{'timex': date_str + time_timex(hh, m, s, has_min, has_sec), 'type': 'datetime',
             'value': date_str + ' ' + fmt_time(hh, m, s)} for hh in readings]
