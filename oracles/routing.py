"""C17 routing oracle, written from the statement over the set of registered (model type, culture) pairs.

  * a supported culture code in any letter case            -> that culture
  * a regional variant of a language with exactly one supported culture -> that culture
  * anything else (unknown language, ambiguous language, '', None)      -> no culture
  then: the recogniser's model for (type, culture) if it has one, otherwise the English model when fallback is
  enabled and ValueError when it is disabled.
Nothing here imports the library; the supported codes and registered pairs are passed in as data.
"""

ENGLISH = 'en-us'


def resolve_culture(requested, supported):
    """-> supported culture code or None."""
    if not requested or not isinstance(requested, str):
        return None
    code = requested.lower()
    if code in supported:
        return code
    lang = code.split('-')[0].strip()
    if not lang:
        return None
    same = [c for c in supported if c.split('-')[0] == lang]
    if len(same) == 1:
        return same[0]
    return None


def expected(model_type, requested, fallback, supported, registered):
    """-> ('model', culture) | ('ValueError', None). registered: set of (model_type, culture)."""
    c = resolve_culture(requested, supported)
    if c is not None and (model_type, c) in registered:
        return ('model', c)
    if fallback and (model_type, ENGLISH) in registered:
        return ('model', ENGLISH)
    return ('ValueError', None)
