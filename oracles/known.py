"""Known findings: genuine defects of the pinned tree that are recorded, not repaired.

/verif/known_findings.json (committed, never written at run time) lists them; each entry names a `matcher`
implemented here — a narrow predicate over (request, reference instants, failure) — so that any *other*
violation of the same property is still reported. `fixed` entries are documentation only and suppress nothing.
"""
import json
import os
from datetime import timedelta

PATH = os.path.join(os.path.dirname(os.path.dirname(os.path.abspath(__file__))), 'known_findings.json')


def load(path=PATH):
    with open(path, encoding='utf-8') as f:
        doc = json.load(f)
    return [k for k in doc.get('known', [])]


def failure_class(prop, req, fail):
    """Stable class of a violation (what minimisation must preserve)."""
    fam = req.get('family')
    return '%s|%s|%s|%s' % (prop, req.get('culture'), fam, fail.get('kind'))


def _fmt(d):
    return '%04d-%02d-%02d' % (d.year, d.month, d.day)


def _m_c09_same_day(k, req, instants, fail):
    # D4: stated (month, day) is R's own day and R's time of day is after 00:00:00 -> [R.date, next occurrence]
    if req.get('family') != 'month_day' or fail.get('kind') != 'wrong-value':
        return False
    p = req['params']
    got = fail['detail'].get('got')
    for R in instants:
        if (p['month'], p['day']) == (R.month, R.day) and (R.hour, R.minute, R.second, R.microsecond) != (0, 0, 0, 0):
            nxt = None
            y = R.year + 1
            while nxt is None:
                try:
                    nxt = R.date().replace(year=y)
                except ValueError:
                    y += 1
            tx = 'XXXX-%02d-%02d' % (p['month'], p['day'])
            if got == [{'timex': tx, 'type': 'date', 'value': _fmt(R.date())},
                       {'timex': tx, 'type': 'date', 'value': _fmt(nxt)}]:
                return True
    return False


def _m_c06_de_trailing_dot(k, req, instants, fail):
    # German: a year-first numeric date directly followed by '.' (sentence end) is mis-read
    if req.get('culture') != 'de-de' or req.get('family') != 'abs_date':
        return False
    if not req['params'].get('layout', '').startswith('{Y}'):
        return False
    end = req['lit'][1]
    return req['text'][end + 1:end + 2] == '.' and req['params']['d'] <= 12


def _range_of(fail):
    v = fail.get('value') or {}
    return v.get('start'), v.get('end'), v.get('timex')


def _m_c11_empty_range_at_reference(k, req, instants, fail):
    # 'earlier in the week' asked on a Monday, 'rest of the week' on a Sunday, 'between <today's date> and now':
    # the range degenerates to [R.date, R.date)
    if fail.get('kind') != 'date-range-start-not-before-end':
        return False
    s, e, _ = _range_of(fail)
    return s is not None and s == e and any(s == _fmt(R.date()) for R in instants)


def _m_c11_inverted_input(k, req, instants, fail):
    # '<date after the reference> to today|tomorrow|now': the stated start lies after the reference-anchored end;
    # the library reports the inverted range faithfully (values equal the TIMEX endpoints)
    if fail.get('kind') != 'date-range-start-not-before-end':
        return False
    s, e, tx = _range_of(fail)
    if not (isinstance(tx, str) and tx.startswith('(') and s and e and s > e):
        return False
    parts = tx[1:-1].split(',')
    if len(parts) != 3 or parts[0] != s or parts[1] != e:
        return False
    return any(e == _fmt(R.date() + timedelta(days=off)) for R in instants for off in (0, 1))


def _m_c17_ja_sequence(k, req, instants, fail):
    # SequenceRecognizer routes every 'ja-*' (and 'zh-*') culture to the Chinese phone / IP / URL model on purpose
    # (same as the .NET original), although no Japanese model is registered: the statement asks for English / ValueError
    op = req.get('op') or {}
    c = op.get('culture')
    if op.get('kind') not in ('PhoneNumber', 'IpAddress', 'URL') or not isinstance(c, str) or not c.lower().startswith('ja-'):
        return False
    if fail.get('kind') == 'model-instead-of-ValueError':
        return True
    return fail.get('kind') == 'wrong-model-behaviour' and any(x.split('|')[1] == 'zh-cn' for x in fail.get('behaves_like', []))


MATCHERS = {
    'c09-same-day-time-of-day': _m_c09_same_day,
    'c06-de-trailing-dot': _m_c06_de_trailing_dot,
    'c11-empty-range-at-reference': _m_c11_empty_range_at_reference,
    'c11-inverted-input-range': _m_c11_inverted_input,
    'c17-ja-sequence': _m_c17_ja_sequence,
}


def match(kf, prop, req, instants, fail):
    for k in kf:
        if k['property'] != prop:
            continue
        m = MATCHERS.get(k['matcher'])
        if m is not None and m(k, req, instants, fail):
            return k['id']
    return None
